(* C05 as TRACE properties of the machine, for every program (not only trees), every parameter
   record, history and fuel.

   T1  every batch item is completed at most once (at most one [EvItemDone h _] per h);
   T2  the scheduler flushes (emits EvBefore / EvAfter) only from a configuration in mode MAfterExec
       whose top frame is [FWait root] with [root] NOT computed - step level for every configuration,
       run level with the index of the emitting step; nested synchronous calls are covered because
       every nested wait has its own FWait frame;
   T3  the batch picked by [select] is pending and non-empty, hence in the trace every EvBefore is
       immediately followed by the EvFlush of the same batch with a non-empty item list;
   T4  bracket discipline: the chronological trace is a concatenation ([blocks]) of tame events
       (no EvBefore / EvAfter / EvFlush / EvItemDone), unbracketed flushes forced by item.value()
       (EvFlush k i items; dones) and scheduler flushes (EvBefore k i; EvFlush k i items; dones;
       EvAfter k i) where [served items dones]: dones are completions of items of the batch only, and
       every item of the batch has one;
   T5  hence (with T1) every item of a flushed batch is completed exactly once in the whole trace, by
       that flush; every EvItemDone lies in a flush of a batch containing the item; EvBefore k i and
       EvAfter k i occur equally often and at most once.

   Scheme as in MachineTrace.v / MachineSteps.v: a relation [mild s s'] for all helpers (only tame
   events, heap ids stay below the counter, every EvItemDone h turns h from uncomputed to computed),
   [keep s s'] (batch table and item entries untouched) for the heap invariant [BI] (every member of a
   batch is a heap entry recording that batch, without outcome while the batch is pending), [fx] for
   what a flush does to the heap, the relation [ok] that allows whole blocks, the invariant [Inv],
   Inv_step, Inv_run, ... *)
From Asynq Require Import Machine proofs.ProgProofs proofs.MachineFrame proofs.MachineC05 proofs.MachineC08
  proofs.MachineTrace.

(* ------------------------------------------------------------------ vocabulary *)
Definition plain (e : event) : Prop :=
  match e with EvBefore _ _ | EvAfter _ _ => False | _ => True end.

(* events a helper outside BatchBase.flush may emit *)
Definition tame (e : event) : Prop :=
  match e with EvBefore _ _ | EvAfter _ _ | EvItemDone _ _ | EvFlush _ _ _ => False | _ => True end.

(* the completion of one of [items] *)
Definition done_in (items : list fid) (e : event) : Prop :=
  match e with EvItemDone h _ => In h items | _ => False end.

Definition is_item (h : fid) (e : event) : bool :=
  match e with EvItemDone h' _ => fid_eqb h h' | _ => false end.
Definition cnt (h : fid) (tr : list event) : nat := length (filter (is_item h) tr).

Definition b2n (b : bool) : nat := if b then 1%nat else 0%nat.

(* futures are numbered by the creation counter *)
Definition dom (s : st) : Prop := forall h, get h s <> None -> exists n, h = [n] /\ (n < top_next s)%Z.

(* the events [evs] lead from s to s': ids stay in range and each EvItemDone h in evs accounts for
   the one change of [computed h] from false to true (this also says that computed is monotone) *)
Definition grows (s s' : st) (evs : list event) : Prop :=
  dom s -> dom s' /\ forall h, (cnt h evs + b2n (computed h s) <= b2n (computed h s'))%nat.

(* s' extends s by events satisfying Q *)
Definition ext (Q : list event -> Prop) (s s' : st) : Prop :=
  exists evs, trace s' = evs ++ trace s /\ Q evs /\ grows s s' evs.

Definition mild : st -> st -> Prop := ext (Forall tame).
Definition fl (items : list fid) : st -> st -> Prop := ext (Forall (done_in items)).

Lemma cnt_app h a b : cnt h (a ++ b) = (cnt h a + cnt h b)%nat.
Proof. unfold cnt. rewrite filter_app, app_length. reflexivity. Qed.

Lemma tame_plain e : tame e -> plain e.
Proof. destruct e; cbn; auto. Qed.

Lemma done_in_plain items e : done_in items e -> plain e.
Proof. destruct e; cbn; auto. Qed.

Lemma tame_cnt h e : tame e -> cnt h [e] = O.
Proof. destruct e; cbn; intros H; try reflexivity; destruct H. Qed.

Lemma grows_refl s : grows s s [].
Proof. intros D. split; [exact D|]. intros h. cbn. lia. Qed.

Lemma grows_trans a b c ea eb : grows a b ea -> grows b c eb -> grows a c (eb ++ ea).
Proof.
  intros A B Da. destruct (A Da) as [Db Ca]. destruct (B Db) as [Dc Cb]. split; [exact Dc|].
  intros h. rewrite cnt_app. specialize (Ca h). specialize (Cb h). lia.
Qed.

Lemma grows_view s s' : heap s' = heap s -> top_next s' = top_next s -> grows s s' [].
Proof.
  intros Hh Hn D.
  assert (G : forall h, get h s' = get h s) by (intros h; unfold get; rewrite Hh; reflexivity).
  split.
  - intros h Hg. rewrite G in Hg. rewrite Hn. exact (D h Hg).
  - intros h. unfold computed. rewrite G. cbn. lia.
Qed.

Lemma grows_emit e s : (forall h, is_item h e = false) -> grows s (emit e s) [e].
Proof.
  intros H D. split; [exact D|]. intros h. unfold cnt. cbn [filter]. rewrite H.
  change (computed h (emit e s)) with (computed h s). cbn. lia.
Qed.

Lemma ext_refl (Q : list event -> Prop) s : Q [] -> ext Q s s.
Proof. intros H. exists []. split; [reflexivity|]. split; [exact H|apply grows_refl]. Qed.

Lemma ext_trans (Q : list event -> Prop) a b c :
  (forall x y, Q x -> Q y -> Q (y ++ x)) -> ext Q a b -> ext Q b c -> ext Q a c.
Proof.
  intros HQ (ea & Ta & Fa & Ga) (eb & Tb & Fb & Gb). exists (eb ++ ea).
  split; [rewrite Tb, Ta, app_assoc; reflexivity|]. split; [apply HQ; assumption|].
  exact (grows_trans a b c ea eb Ga Gb).
Qed.

Lemma Forall_app_rev {A} (R : A -> Prop) x y : Forall R x -> Forall R y -> Forall R (y ++ x).
Proof. intros Hx Hy. apply Forall_app. auto. Qed.

Lemma mild_refl s : mild s s.
Proof. apply ext_refl. constructor. Qed.

Lemma mild_trans a b c : mild a b -> mild b c -> mild a c.
Proof. apply ext_trans. apply Forall_app_rev. Qed.

Lemma fl_refl items s : fl items s s.
Proof. apply ext_refl. constructor. Qed.

Lemma fl_trans items a b c : fl items a b -> fl items b c -> fl items a c.
Proof. apply ext_trans. apply Forall_app_rev. Qed.

Lemma mild_view s s' : heap s' = heap s -> top_next s' = top_next s -> trace s' = trace s -> mild s s'.
Proof.
  intros Hh Hn Ht. exists []. split; [exact Ht|]. split; [constructor|apply grows_view; assumption].
Qed.

Lemma mild_emit e s : tame e -> mild s (emit e s).
Proof.
  intros H. exists [e]. split; [reflexivity|]. split; [repeat constructor; exact H|].
  apply grows_emit. intros h. destruct e; try reflexivity; destruct H.
Qed.

Lemma get_put h h' f s : get h (put h' f s) = if fid_eqb h h' then Some f else get h s.
Proof.
  destruct (fid_eqb h h') eqn:E.
  - apply fid_eqb_eq in E. subst h'. apply get_put_same.
  - assert (h <> h') by (intros ->; rewrite fid_eqb_refl in E; discriminate).
    apply get_put_other. assumption.
Qed.

Lemma computed_put h h' f s :
  computed h (put h' f s) = if fid_eqb h h' then match f_out f with Some _ => true | None => false end
                            else computed h s.
Proof. unfold computed. rewrite get_put. destruct (fid_eqb h h'); reflexivity. Qed.

Lemma dom_put h f s : dom s -> get h s <> None -> dom (put h f s).
Proof.
  intros D G h0 Hg. rewrite get_put in Hg. destruct (fid_eqb h0 h) eqn:E.
  - apply fid_eqb_eq in E. subst h0. exact (D h G).
  - exact (D h0 Hg).
Qed.

(* overwriting an existing entry without losing an outcome *)
Lemma mild_put h f' s :
  get h s <> None -> (computed h s = true -> f_out f' <> None) -> mild s (put h f' s).
Proof.
  intros G O. exists []. split; [reflexivity|]. split; [constructor|]. intros D.
  split; [exact (dom_put h f' s D G)|]. intros h0. rewrite computed_put. cbn [cnt filter length].
  destruct (fid_eqb h0 h) eqn:E; [|lia]. apply fid_eqb_eq in E. subst h0.
  destruct (computed h s) eqn:C; [|cbn; lia]. specialize (O eq_refl). destruct (f_out f'); [cbn; lia|congruence].
Qed.

Lemma mild_put_some h o kd s : get h s <> None -> mild s (put h (mkFut (Some o) kd) s).
Proof. intros G. apply mild_put; [exact G|cbn; discriminate]. Qed.

Lemma mild_set_task t tk s : mild s (set_task t tk s).
Proof.
  unfold set_task. destruct (get t s) as [f|] eqn:G; [|apply mild_refl].
  apply mild_put; [congruence|]. cbn. intros C. unfold computed in C. rewrite G in C.
  destruct (f_out f); [discriminate|discriminate C].
Qed.

Lemma mild_var_set v x s : mild s (var_set v x s). Proof. apply mild_view; reflexivity. Qed.
Lemma mild_ci_put k c s : mild s (ci_put k c s). Proof. apply mild_view; reflexivity. Qed.
Lemma mild_with_sb s x : mild s (with_sb s x). Proof. apply mild_view; reflexivity. Qed.
Lemma mild_with_oracle s x : mild s (with_oracle s x). Proof. apply mild_view; reflexivity. Qed.
Lemma mild_with_tasks s x : mild s (with_tasks s x). Proof. apply mild_view; reflexivity. Qed.
Lemma mild_with_active s x : mild s (with_active s x). Proof. apply mild_view; reflexivity. Qed.
Lemma mild_with_cur s x : mild s (with_cur s x). Proof. apply mild_view; reflexivity. Qed.
Lemma mild_put_batch k b s : mild s (put_batch k b s). Proof. apply mild_view; reflexivity. Qed.
Lemma mild_pop_task s : mild s (pop_task s). Proof. apply mild_view; reflexivity. Qed.
Lemma mild_reset_sched s : mild s (reset_sched s). Proof. apply mild_view; reflexivity. Qed.
Lemma mild_drop_sb s : mild s (drop_sb s).
Proof. apply mild_view; [apply heap_drop_sb|apply top_next_drop_sb|apply trace_drop_sb]. Qed.

Ltac mstep :=
  match goal with
  | |- mild ?s ?s => apply mild_refl
  | |- mild _ (emit _ _) => eapply mild_trans; [|apply mild_emit; exact I]
  | |- mild _ (set_task _ _ _) => eapply mild_trans; [|apply mild_set_task]
  | |- mild _ (var_set _ _ _) => eapply mild_trans; [|apply mild_var_set]
  | |- mild _ (ci_put _ _ _) => eapply mild_trans; [|apply mild_ci_put]
  | |- mild _ (with_sb _ _) => eapply mild_trans; [|apply mild_with_sb]
  | |- mild _ (with_oracle _ _) => eapply mild_trans; [|apply mild_with_oracle]
  | |- mild _ (with_tasks _ _) => eapply mild_trans; [|apply mild_with_tasks]
  | |- mild _ (with_active _ _) => eapply mild_trans; [|apply mild_with_active]
  | |- mild _ (with_cur _ _) => eapply mild_trans; [|apply mild_with_cur]
  | |- mild _ (put_batch _ _ _) => eapply mild_trans; [|apply mild_put_batch]
  | |- mild _ (pop_task _) => eapply mild_trans; [|apply mild_pop_task]
  | |- mild _ (reset_sched _) => eapply mild_trans; [|apply mild_reset_sched]
  | |- mild _ (drop_sb _) => eapply mild_trans; [|apply mild_drop_sb]
  end.
Ltac mm := repeat mstep.

Lemma mild_enter_ctx t c s : mild s (enter_ctx t c s).
Proof. unfold enter_ctx. destruct (get_task t s); destruct c; mm. Qed.
Lemma mild_pause_plain t c s : mild s (pause_plain t c s).
Proof. destruct c; unfold pause_plain; mm. Qed.
Lemma mild_exit_ctx t c s : mild s (exit_ctx t c s).
Proof. unfold exit_ctx. destruct (get_task t s) as [tk|]; [destruct (tk_cact tk)|]; try (eapply mild_trans; [|apply mild_pause_plain]); mm. Qed.

Lemma mild_fold {X} (f : st -> X -> st) l : (forall s x, mild s (f s x)) -> forall s, mild s (fold_left f l s).
Proof. intros H. induction l as [|x l IH]; intros s; cbn; [apply mild_refl|]. eapply mild_trans; [apply H|apply IH]. Qed.

Lemma get_task_get t s tk : get_task t s = Some tk -> get t s <> None.
Proof. unfold get_task. destruct (get t s); [discriminate|intros H; discriminate H]. Qed.

Lemma mild_complete_task t o s : mild s (complete_task t o s).
Proof.
  unfold complete_task. destruct (get_task t s) as [tk|]; [|apply mild_refl].
  assert (H : mild s (match tk_gen tk with
                      | Some _ => fold_left (fun s c => exit_ctx t c s) (rev (tk_ctxs tk)) s
                      | None => s end)).
  { destruct (tk_gen tk); [|apply mild_refl]. apply mild_fold. intros. apply mild_exit_ctx. }
  match goal with |- mild s (match get_task t ?x with _ => _ end) => set (s1 := x) in * end.
  destruct (get_task t s1) as [tk1|] eqn:G1; [|exact H]. eapply mild_trans; [exact H|].
  mstep. apply mild_put_some. exact (get_task_get t s1 tk1 G1).
Qed.

Lemma mild_accept_error t e s : mild s (accept_error t e s).
Proof. unfold accept_error. destruct (computed t s); [apply mild_refl|apply mild_complete_task]. Qed.

Lemma mild_resume1 t c s : mild s (fst (resume1 t c s)).
Proof. unfold resume1. destruct c as [cid f|cid|cid var v]; [destruct f| |]; cbn [fst]; t_regs; cbn [fst]; mm. Qed.
Lemma mild_pause1 t c s : mild s (fst (pause1 t c s)).
Proof. unfold pause1. destruct c as [cid f|cid|cid var v]; [destruct f| |]; cbn [fst]; t_regs; cbn [fst]; mm. Qed.

Lemma mild_fold_pair {X E} (f : st * E -> X -> st * E) l :
  (forall a x, mild (fst a) (fst (f a x))) -> forall a, mild (fst a) (fst (fold_left f l a)).
Proof. intros H. induction l as [|x l IH]; intros a; cbn; [apply mild_refl|]. eapply mild_trans; [apply H|apply IH]. Qed.

Lemma mild_resume_contexts t s : mild s (resume_contexts t s).
Proof.
  unfold resume_contexts. destruct (get_task t s) as [tk|]; [|apply mild_refl].
  destruct (tk_cact tk); [apply mild_refl|].
  match goal with |- context [fold_left ?f ?l ?a] =>
    assert (H2 : mild s (fst (fold_left f l a))) end.
  { match goal with |- mild s (fst (fold_left ?f ?l (?s0, ?e))) =>
      apply (mild_trans s s0); [apply mild_set_task | apply (mild_fold_pair f l) with (a := (s0, e))] end.
    intros [s0 e0] c. cbn [fst]. pose proof (mild_resume1 t c s0) as Rr. destruct (resume1 t c s0). exact Rr. }
  match goal with |- context [fold_left ?f ?l ?a] => destruct (fold_left f l a) as [s1 [e|]] end;
    cbn [fst] in H2; [eapply mild_trans; [exact H2|apply mild_accept_error]|exact H2].
Qed.

Lemma mild_pause_contexts t s : mild s (pause_contexts t s).
Proof.
  unfold pause_contexts. destruct (get_task t s) as [tk|]; [|apply mild_refl].
  destruct (negb (tk_cact tk)); [apply mild_refl|].
  match goal with |- context [fold_left ?f ?l ?a] =>
    assert (H2 : mild s (fst (fold_left f l a))) end.
  { match goal with |- mild s (fst (fold_left ?f ?l (?s0, ?e))) =>
      apply (mild_trans s s0); [apply mild_set_task | apply (mild_fold_pair f l) with (a := (s0, e))] end.
    intros [s0 e0] c. cbn [fst]. pose proof (mild_pause1 t c s0) as Rr. destruct (pause1 t c s0). exact Rr. }
  match goal with |- context [fold_left ?f ?l ?a] => destruct (fold_left f l a) as [s1 [e|]] end;
    cbn [fst] in H2; [eapply mild_trans; [exact H2|apply mild_accept_error]|exact H2].
Qed.

(* creating a future: the fresh id [top_next s] has no entry yet *)
Lemma mild_alloc_put s f : mild s (put [top_next s] f (with_top_next s (top_next s + 1))).
Proof.
  exists []. split; [reflexivity|]. split; [constructor|]. intros D.
  assert (N0 : get [top_next s] s = None).
  { destruct (get [top_next s] s) as [x|] eqn:E; [|reflexivity].
    destruct (D [top_next s]) as (n & En & Hn); [rewrite E; discriminate|]. inversion En. lia. }
  assert (C0 : computed [top_next s] s = false) by (unfold computed; rewrite N0; reflexivity).
  split.
  - intros h Hg. rewrite get_put in Hg. destruct (fid_eqb h [top_next s]) eqn:E.
    + apply fid_eqb_eq in E. subst h. exists (top_next s). split; [reflexivity|cbn; lia].
    + destruct (D h Hg) as (n & -> & Hn). exists n. split; [reflexivity|cbn; lia].
  - intros h. rewrite computed_put. cbn [cnt filter length]. destruct (fid_eqb h [top_next s]) eqn:E.
    + apply fid_eqb_eq in E. subst h. rewrite C0. destruct (f_out f); cbn; lia.
    + change (computed h (with_top_next s (top_next s + 1))) with (computed h s). lia.
Qed.

Lemma mild_create p f s : mild s (snd (create p f s)).
Proof.
  unfold create, alloc. cbn zeta. destruct f; cbn [snd]; mm; apply mild_alloc_put.
Qed.

Lemma mild_inst p y : forall s, mild s (snd (inst p y s)).
Proof.
  induction y as [| a | l IH | l IH | l IH] using ystruct_ind2; intros s.
  - apply mild_refl.
  - destruct a as [f|h|]; simpl; try apply mild_refl.
    pose proof (mild_create p f s) as H. destruct (create p f s). exact H.
  - simpl. match goal with |- context [(?g l s)] => set (go := g) end.
    assert (H : forall s, mild s (snd (go l s))).
    { clear s. induction IH as [|x l Hx Hl IHl]; intros s; [apply mild_refl|]. simpl.
      specialize (Hx s). destruct (inst p x s) as [x' s1]. cbn [snd] in Hx.
      specialize (IHl s1). destruct (go l s1) as [l'' s2]. cbn [snd] in *. eapply mild_trans; eauto. }
    specialize (H s). destruct (go l s). exact H.
  - simpl. match goal with |- context [(?g l s)] => set (go := g) end.
    assert (H : forall s, mild s (snd (go l s))).
    { clear s. induction IH as [|x l Hx Hl IHl]; intros s; [apply mild_refl|]. simpl.
      specialize (Hx s). destruct (inst p x s) as [x' s1]. cbn [snd] in Hx.
      specialize (IHl s1). destruct (go l s1) as [l'' s2]. cbn [snd] in *. eapply mild_trans; eauto. }
    specialize (H s). destruct (go l s). exact H.
  - simpl. match goal with |- context [(?g l s)] => set (go := g) end.
    assert (H : forall s, mild s (snd (go l s))).
    { clear s. induction IH as [|[k x] l Hx Hl IHl]; intros s; [apply mild_refl|]. simpl. simpl in Hx.
      specialize (Hx s). destruct (inst p x s) as [x' s1]. cbn [snd] in Hx.
      specialize (IHl s1). destruct (go l s1) as [l'' s2]. cbn [snd] in *. eapply mild_trans; eauto. }
    specialize (H s). destruct (go l s). exact H.
Qed.

(* the one helper that emits EvItemDone: only for an entry without outcome, which gets one *)
Lemma fl_complete_item items h o s : In h items -> fl items s (complete_item h o s).
Proof.
  intros Hin. unfold complete_item. destruct (get h s) as [f|] eqn:G; [|apply fl_refl].
  destruct (f_out f) eqn:O; [apply fl_refl|].
  exists [EvItemDone h o]. split; [reflexivity|]. split; [repeat constructor; exact Hin|]. intros D.
  assert (G' : get h s <> None) by congruence.
  split; [exact (dom_put h _ s D G')|]. intros h0.
  change (computed h0 (emit (EvItemDone h o) (put h (mkFut (Some o) (f_kind f)) s)))
    with (computed h0 (put h (mkFut (Some o) (f_kind f)) s)).
  rewrite computed_put. unfold cnt. cbn [filter is_item]. destruct (fid_eqb h0 h) eqn:E; cbn [length f_out b2n]; [|lia].
  apply fid_eqb_eq in E. subst h0. unfold computed. rewrite G, O. cbn. lia.
Qed.

Lemma fl_flush_body all items : (forall h, In h items -> In h all) ->
  forall i ra s, fl all s (fst (flush_body items i ra s)).
Proof.
  induction items as [|h rest IH]; intros Hsub i ra s; simpl.
  - destruct ra as [[k e]|]; apply fl_refl.
  - assert (Hh : In h all) by (apply Hsub; left; reflexivity).
    assert (Hrest : forall h', In h' rest -> In h' all) by (intros h' Hi; apply Hsub; right; exact Hi).
    destruct ra as [[k e]|].
    + destruct (Z.eqb i k); [apply fl_refl|]. eapply fl_trans; [|apply IH; exact Hrest].
      destruct (get h s) as [[o [ | kind idx key [v|e'|] | | ]]|]; try apply fl_refl; apply fl_complete_item; exact Hh.
    + eapply fl_trans; [|apply IH; exact Hrest].
      destruct (get h s) as [[o [ | kind idx key [v|e'|] | | ]]|]; try apply fl_refl; apply fl_complete_item; exact Hh.
Qed.

Lemma fl_fold all o items : (forall h, In h items -> In h all) ->
  forall s, fl all s (fold_left (fun s h => complete_item h o s) items s).
Proof.
  induction items as [|h rest IH]; intros Hsub s; cbn [fold_left]; [apply fl_refl|].
  eapply fl_trans; [apply fl_complete_item; apply Hsub; left; reflexivity|].
  apply IH. intros h' Hi. apply Hsub. right. exact Hi.
Qed.

(* what one BatchBase.flush adds to the trace (newest first): the body's EvFlush with the batch's
   items, then only completions of these items *)
Definition fblock (k : Z * Z) (items : list fid) (evs : list event) : Prop :=
  exists dones, evs = dones ++ [EvFlush (fst k) (snd k) items] /\ Forall (done_in items) dones.

Lemma flush_batch_ext P k s :
  b_done (get_batch k s) = false -> ext (fblock k (b_items (get_batch k s))) s (flush_batch P k s).
Proof.
  intros Hd. unfold flush_batch. rewrite Hd. set (items := b_items (get_batch k s)).
  set (s0 := if Z.eqb (cur_idx (fst k) s) (snd k) then with_cur s (upd Z.eqb (fst k) (snd k + 1) (cur s)) else s).
  assert (G0 : grows s s0 [] /\ trace s0 = trace s).
  { unfold s0. destruct (Z.eqb _ _); (split; [apply grows_view; reflexivity|reflexivity]). }
  destruct G0 as [G0 T0].
  set (s1 := emit (EvFlush (fst k) (snd k) items) s0).
  assert (G1 : grows s0 s1 [EvFlush (fst k) (snd k) items]) by (apply grows_emit; reflexivity).
  pose proof (fl_flush_body items items (fun h H => H) 0 (ks_raise (kspec_of P (fst k))) s1) as H2.
  destruct (flush_body items 0 (ks_raise (kspec_of P (fst k))) s1) as [s2 err]. cbn [fst] in H2.
  destruct H2 as (e2 & T2 & F2 & G2).
  set (fill := match err with Some e => Err e | None => Err E_NOTSET end).
  destruct (fl_fold items fill items (fun h H => H) s2) as (e3 & T3 & F3 & G3).
  set (s3 := fold_left (fun s h => complete_item h fill s) items s2) in *.
  exists ((e3 ++ e2) ++ [EvFlush (fst k) (snd k) items]). split; [|split].
  - change (trace (put_batch k (mkB (b_items (get_batch k s3)) true) s3)) with (trace s3).
    rewrite T3, T2. change (trace s1) with (EvFlush (fst k) (snd k) items :: trace s0). rewrite T0.
    rewrite <- !app_assoc. reflexivity.
  - exists (e3 ++ e2). split; [reflexivity|]. apply Forall_app. auto.
  - pose proof (grows_trans _ _ _ _ _ G0 G1) as G01. pose proof (grows_trans _ _ _ _ _ G01 G2) as G012.
    pose proof (grows_trans _ _ _ _ _ G012 G3) as G0123.
    assert (G4 : grows s3 (put_batch k (mkB (b_items (get_batch k s3)) true) s3) []) by (apply grows_view; reflexivity).
    pose proof (grows_trans _ _ _ _ _ G0123 G4) as G. cbn [app] in G.
    rewrite <- app_assoc. exact G.
Qed.

Lemma mild_select P s : mild s (snd (select P s)).
Proof.
  unfold select. destruct (filter _ (sb s)); [apply mild_view; reflexivity|].
  cbn [oracle with_sb]. destruct (oracle s); [apply mild_view; reflexivity|].
  destruct (existsb _ _ && _); cbn [snd]; mm.
Qed.

Lemma mild_schedule_batch k s : mild s (schedule_batch k s).
Proof. unfold schedule_batch. destruct (b_done _); [apply mild_refl|]. destruct (existsb _ _); mm. Qed.

(* ------------------------------------------------------------------ batch items in the heap *)
Definition is_itemk (f : fut) : Prop := match f_kind f with KItem _ _ _ _ => True | _ => False end.

(* every member of a batch is a heap entry recording that batch, without outcome while the batch is
   pending *)
Definition BI (s : st) : Prop :=
  forall k h, In h (b_items (get_batch k s)) ->
    exists out key a, get h s = Some (mkFut out (KItem (fst k) (snd k) key a)) /\
                      (b_done (get_batch k s) = false -> out = None).

(* helpers that leave the batch table and all item entries alone *)
Definition keep (s s' : st) : Prop :=
  batches s' = batches s /\ forall h f, get h s = Some f -> is_itemk f -> get h s' = Some f.

Lemma keep_refl s : keep s s. Proof. split; auto. Qed.
Lemma keep_trans a b c : keep a b -> keep b c -> keep a c.
Proof. intros [A1 A2] [B1 B2]. split; [congruence|]. intros h f G I. apply B2; auto. Qed.
Lemma keep_view s s' : heap s' = heap s -> batches s' = batches s -> keep s s'.
Proof. intros Hh Hb. split; [exact Hb|]. intros h f G _. unfold get in *. rewrite Hh. exact G. Qed.

Lemma keep_put h f' s : (forall f0, get h s = Some f0 -> ~ is_itemk f0) -> keep s (put h f' s).
Proof.
  intros N. split; [reflexivity|]. intros h0 f G I. rewrite get_put. destruct (fid_eqb h0 h) eqn:E; [|exact G].
  apply fid_eqb_eq in E. subst h0. destruct (N f G I).
Qed.

Lemma get_task_kind t s tk : get_task t s = Some tk -> forall f0, get t s = Some f0 -> ~ is_itemk f0.
Proof.
  unfold get_task. intros H f0 G. rewrite G in H. unfold is_itemk. destruct f0 as [out [tk0|kind idx key a|o|]]; cbn; auto; discriminate.
Qed.

Lemma keep_set_task t tk0 tk s : get_task t s = Some tk0 -> keep s (set_task t tk s).
Proof.
  intros G. unfold set_task. destruct (get t s) as [f|] eqn:E; [|apply keep_refl].
  apply keep_put. intros f0 E0. rewrite E in E0. apply (get_task_kind t s tk0 G). congruence.
Qed.

Lemma keep_set_task' t out tk0 tk s : get t s = Some (mkFut out (KTask tk0)) -> keep s (set_task t tk s).
Proof. intros G. apply (keep_set_task t tk0). unfold get_task. rewrite G. reflexivity. Qed.

Lemma keep_put_task t tk0 f' s : get_task t s = Some tk0 -> keep s (put t f' s).
Proof. intros G. apply keep_put. exact (get_task_kind t s tk0 G). Qed.

Lemma keep_put_lazy x out o f' s : get x s = Some (mkFut out (KLazy o)) -> keep s (put x f' s).
Proof. intros G. apply keep_put. intros f0 G0. rewrite G in G0. inversion G0; subst. cbn. auto. Qed.

Lemma keep_emit e s : keep s (emit e s). Proof. apply keep_view; reflexivity. Qed.
Lemma keep_var_set v x s : keep s (var_set v x s). Proof. apply keep_view; reflexivity. Qed.
Lemma keep_ci_put k c s : keep s (ci_put k c s). Proof. apply keep_view; reflexivity. Qed.
Lemma keep_with_sb s x : keep s (with_sb s x). Proof. apply keep_view; reflexivity. Qed.
Lemma keep_with_oracle s x : keep s (with_oracle s x). Proof. apply keep_view; reflexivity. Qed.
Lemma keep_with_tasks s x : keep s (with_tasks s x). Proof. apply keep_view; reflexivity. Qed.
Lemma keep_with_active s x : keep s (with_active s x). Proof. apply keep_view; reflexivity. Qed.
Lemma keep_with_cur s x : keep s (with_cur s x). Proof. apply keep_view; reflexivity. Qed.
Lemma keep_pop_task s : keep s (pop_task s). Proof. apply keep_view; reflexivity. Qed.
Lemma keep_reset_sched s : keep s (reset_sched s). Proof. apply keep_view; reflexivity. Qed.
Lemma keep_drop_sb s : keep s (drop_sb s). Proof. apply keep_view; [apply heap_drop_sb|apply batches_drop_sb]. Qed.

Ltac kstep :=
  match goal with
  | |- keep ?s ?s => apply keep_refl
  | |- keep _ (emit _ _) => eapply keep_trans; [|apply keep_emit]
  | |- keep _ (var_set _ _ _) => eapply keep_trans; [|apply keep_var_set]
  | |- keep _ (ci_put _ _ _) => eapply keep_trans; [|apply keep_ci_put]
  | |- keep _ (with_sb _ _) => eapply keep_trans; [|apply keep_with_sb]
  | |- keep _ (with_oracle _ _) => eapply keep_trans; [|apply keep_with_oracle]
  | |- keep _ (with_tasks _ _) => eapply keep_trans; [|apply keep_with_tasks]
  | |- keep _ (with_active _ _) => eapply keep_trans; [|apply keep_with_active]
  | |- keep _ (with_cur _ _) => eapply keep_trans; [|apply keep_with_cur]
  | |- keep _ (pop_task _) => eapply keep_trans; [|apply keep_pop_task]
  | |- keep _ (reset_sched _) => eapply keep_trans; [|apply keep_reset_sched]
  | |- keep _ (drop_sb _) => eapply keep_trans; [|apply keep_drop_sb]
  | |- keep _ (set_task _ _ _) =>
      eapply keep_trans; [|first [eapply keep_set_task; eassumption | eapply keep_set_task'; eassumption]]
  end.
Ltac kk := repeat kstep.

Lemma keep_enter_ctx t c s : keep s (enter_ctx t c s).
Proof. unfold enter_ctx. destruct (get_task t s) eqn:G; destruct c; kk. Qed.
Lemma keep_pause_plain t c s : keep s (pause_plain t c s).
Proof. destruct c; unfold pause_plain; kk. Qed.
Lemma keep_exit_ctx t c s : keep s (exit_ctx t c s).
Proof. unfold exit_ctx. destruct (get_task t s) as [tk|] eqn:G; [destruct (tk_cact tk)|]; try (eapply keep_trans; [|apply keep_pause_plain]); kk. Qed.

Lemma keep_fold {X} (f : st -> X -> st) l : (forall s x, keep s (f s x)) -> forall s, keep s (fold_left f l s).
Proof. intros H. induction l as [|x l IH]; intros s; cbn; [apply keep_refl|]. eapply keep_trans; [apply H|apply IH]. Qed.

Lemma keep_complete_task t o s : keep s (complete_task t o s).
Proof.
  unfold complete_task. destruct (get_task t s) as [tk|]; [|apply keep_refl].
  assert (H : keep s (match tk_gen tk with
                      | Some _ => fold_left (fun s c => exit_ctx t c s) (rev (tk_ctxs tk)) s
                      | None => s end)).
  { destruct (tk_gen tk); [|apply keep_refl]. apply keep_fold. intros. apply keep_exit_ctx. }
  match goal with |- keep s (match get_task t ?x with _ => _ end) => set (s1 := x) in * end.
  destruct (get_task t s1) as [tk1|] eqn:G1; [|exact H]. eapply keep_trans; [exact H|].
  kstep. apply (keep_put_task t tk1). exact G1.
Qed.

Lemma keep_accept_error t e s : keep s (accept_error t e s).
Proof. unfold accept_error. destruct (computed t s); [apply keep_refl|apply keep_complete_task]. Qed.

Lemma keep_resume1 t c s : keep s (fst (resume1 t c s)).
Proof. unfold resume1. destruct c as [cid f|cid|cid var v]; [destruct f| |]; cbn [fst]; t_regs; cbn [fst]; kk. Qed.
Lemma keep_pause1 t c s : keep s (fst (pause1 t c s)).
Proof. unfold pause1. destruct c as [cid f|cid|cid var v]; [destruct f| |]; cbn [fst]; t_regs; cbn [fst]; kk. Qed.

Lemma keep_fold_pair {X E} (f : st * E -> X -> st * E) l :
  (forall a x, keep (fst a) (fst (f a x))) -> forall a, keep (fst a) (fst (fold_left f l a)).
Proof. intros H. induction l as [|x l IH]; intros a; cbn; [apply keep_refl|]. eapply keep_trans; [apply H|apply IH]. Qed.

Lemma keep_resume_contexts t s : keep s (resume_contexts t s).
Proof.
  unfold resume_contexts. destruct (get_task t s) as [tk|] eqn:G; [|apply keep_refl].
  destruct (tk_cact tk); [apply keep_refl|].
  match goal with |- context [fold_left ?f ?l ?a] =>
    assert (H2 : keep s (fst (fold_left f l a))) end.
  { match goal with |- keep s (fst (fold_left ?f ?l (?s0, ?e))) =>
      apply (keep_trans s s0); [apply (keep_set_task t tk); exact G | apply (keep_fold_pair f l) with (a := (s0, e))] end.
    intros [s0 e0] c. cbn [fst]. pose proof (keep_resume1 t c s0) as Rr. destruct (resume1 t c s0). exact Rr. }
  match goal with |- context [fold_left ?f ?l ?a] => destruct (fold_left f l a) as [s1 [e|]] end;
    cbn [fst] in H2; [eapply keep_trans; [exact H2|apply keep_accept_error]|exact H2].
Qed.

Lemma keep_pause_contexts t s : keep s (pause_contexts t s).
Proof.
  unfold pause_contexts. destruct (get_task t s) as [tk|] eqn:G; [|apply keep_refl].
  destruct (negb (tk_cact tk)); [apply keep_refl|].
  match goal with |- context [fold_left ?f ?l ?a] =>
    assert (H2 : keep s (fst (fold_left f l a))) end.
  { match goal with |- keep s (fst (fold_left ?f ?l (?s0, ?e))) =>
      apply (keep_trans s s0); [apply (keep_set_task t tk); exact G | apply (keep_fold_pair f l) with (a := (s0, e))] end.
    intros [s0 e0] c. cbn [fst]. pose proof (keep_pause1 t c s0) as Rr. destruct (pause1 t c s0). exact Rr. }
  match goal with |- context [fold_left ?f ?l ?a] => destruct (fold_left f l a) as [s1 [e|]] end;
    cbn [fst] in H2; [eapply keep_trans; [exact H2|apply keep_accept_error]|exact H2].
Qed.

Lemma keep_select P s : keep s (snd (select P s)).
Proof. destruct (select_batches P s) as [Hb Hh]. apply keep_view; assumption. Qed.

Lemma keep_schedule_batch k s : keep s (schedule_batch k s).
Proof. unfold schedule_batch. destruct (b_done _); [apply keep_refl|]. destruct (existsb _ _); kk. Qed.

Lemma BI_keep s s' : BI s -> keep s s' -> BI s'.
Proof.
  intros B [Kb Kh] k h Hin. unfold get_batch in *. rewrite Kb in *. destruct (B k h Hin) as (out & key & a & G & Hd).
  exists out, key, a. split; [|exact Hd]. apply Kh; [exact G|]. cbn. exact I.
Qed.

(* creating a future: the fresh id is in no batch; a new item joins the batch it records *)
Lemma BI_fresh s h : dom s -> BI s -> get h s = None -> forall k, ~ In h (b_items (get_batch k s)).
Proof. intros D B N k Hin. destruct (B k h Hin) as (out & key & a & G & _). congruence. Qed.

Lemma fresh_none s : dom s -> get [top_next s] s = None.
Proof.
  intros D. destruct (get [top_next s] s) as [x|] eqn:E; [|reflexivity].
  destruct (D [top_next s]) as (n & En & Hn); [rewrite E; discriminate|]. inversion En. lia.
Qed.

Lemma BI_alloc_put s f : dom s -> BI s -> BI (put [top_next s] f (with_top_next s (top_next s + 1))).
Proof.
  intros D B k h Hin. change (get_batch k (put [top_next s] f (with_top_next s (top_next s + 1)))) with (get_batch k s) in *.
  destruct (B k h Hin) as (out & key & a & G & Hd). exists out, key, a. split; [|exact Hd].
  rewrite get_put. destruct (fid_eqb h [top_next s]) eqn:E; [|exact G].
  apply fid_eqb_eq in E. subst h. rewrite (fresh_none s D) in G. discriminate.
Qed.

Lemma BI_create p f s : dom s -> BI s -> BI (snd (create p f s)).
Proof.
  intros D B. unfold create, alloc. cbn zeta. destruct f; cbn [snd]; try (apply BI_alloc_put; assumption).
  set (s0 := with_top_next s (top_next s + 1)). set (h0 := [top_next s]).
  set (k0 := (kind, cur_idx kind s0)).
  pose proof (BI_alloc_put s (mkFut None (KItem kind (cur_idx kind s0) key a)) D B) as B1.
  fold s0 h0 in B1. set (s1 := put h0 (mkFut None (KItem kind (cur_idx kind s0) key a)) s0) in *.
  change (get_batch k0 s0) with (get_batch k0 s1).
  intros k h Hin. change (get h (put_batch k0 (mkB (b_items (get_batch k0 s1) ++ [h0]) (b_done (get_batch k0 s1))) s1)) with (get h s1).
  destruct (key_eqb k k0) eqn:E.
  - apply key_eqb_eq in E. subst k. rewrite get_batch_put_same in *. cbn [b_items b_done] in *.
    apply in_app_or in Hin as [Hin|[<-|[]]]; [exact (B1 k0 h Hin)|].
    exists None, key, a. split; [|reflexivity]. unfold s1. rewrite get_put_same. reflexivity.
  - assert (N : k <> k0) by (intros ->; rewrite key_eqb_refl in E; discriminate).
    rewrite get_batch_put_other in * by exact N. exact (B1 k h Hin).
Qed.

Definition DB (s : st) : Prop := dom s /\ BI s.

Lemma DB_mild_keep s s' : DB s -> mild s s' -> keep s s' -> DB s'.
Proof. intros [D B] (evs & _ & _ & G) K. destruct (G D) as [D' _]. split; [exact D'|exact (BI_keep s s' B K)]. Qed.

Lemma DB_create p f s : DB s -> DB (snd (create p f s)).
Proof.
  intros [D B]. split; [|apply BI_create; assumption].
  destruct (mild_create p f s) as (evs & _ & _ & G). exact (proj1 (G D)).
Qed.

Lemma inst_pres (R : st -> Prop) : (forall p f s, R s -> R (snd (create p f s))) ->
  forall p y s, R s -> R (snd (inst p y s)).
Proof.
  intros HC p y. induction y as [| a | l IH | l IH | l IH] using ystruct_ind2; intros s.
  - auto.
  - destruct a as [f|h|]; simpl; auto.
    pose proof (HC p f s) as H. destruct (create p f s). exact H.
  - simpl. match goal with |- context [(?g l s)] => set (go := g) end.
    assert (H : forall s, R s -> R (snd (go l s))).
    { clear s. induction IH as [|x l Hx Hl IHl]; intros s Hs; [exact Hs|]. simpl.
      specialize (Hx s Hs). destruct (inst p x s) as [x' s1]. cbn [snd] in Hx.
      specialize (IHl s1 Hx). destruct (go l s1) as [l'' s2]. cbn [snd] in *. exact IHl. }
    specialize (H s). destruct (go l s). exact H.
  - simpl. match goal with |- context [(?g l s)] => set (go := g) end.
    assert (H : forall s, R s -> R (snd (go l s))).
    { clear s. induction IH as [|x l Hx Hl IHl]; intros s Hs; [exact Hs|]. simpl.
      specialize (Hx s Hs). destruct (inst p x s) as [x' s1]. cbn [snd] in Hx.
      specialize (IHl s1 Hx). destruct (go l s1) as [l'' s2]. cbn [snd] in *. exact IHl. }
    specialize (H s). destruct (go l s). exact H.
  - simpl. match goal with |- context [(?g l s)] => set (go := g) end.
    assert (H : forall s, R s -> R (snd (go l s))).
    { clear s. induction IH as [|[k x] l Hx Hl IHl]; intros s Hs; [exact Hs|]. simpl. simpl in Hx.
      specialize (Hx s Hs). destruct (inst p x s) as [x' s1]. cbn [snd] in Hx.
      specialize (IHl s1 Hx). destruct (go l s1) as [l'' s2]. cbn [snd] in *. exact IHl. }
    specialize (H s). destruct (go l s). exact H.
Qed.

Lemma DB_inst p y s : DB s -> DB (snd (inst p y s)).
Proof. apply inst_pres. intros. apply DB_create. assumption. Qed.

(* ------------------------------------------------------------------ what a flush does to the heap *)
(* every entry is untouched, or it is one of [items], had no outcome, got the outcome o (same kind) and
   EvItemDone h o was emitted *)
Definition fx (items : list fid) (s s' : st) : Prop :=
  batches s' = batches s /\
  exists evs, trace s' = evs ++ trace s /\
    forall h, get h s' = get h s \/
              (In h items /\ exists f o, get h s = Some f /\ f_out f = None /\
                                         get h s' = Some (mkFut (Some o) (f_kind f)) /\ In (EvItemDone h o) evs).

Lemma fx_refl items s : fx items s s.
Proof. split; [reflexivity|]. exists []. split; [reflexivity|]. intros h. left. reflexivity. Qed.

Lemma fx_view items s s' : heap s' = heap s -> batches s' = batches s -> trace s' = trace s -> fx items s s'.
Proof.
  intros Hh Hb Ht. split; [exact Hb|]. exists []. split; [exact Ht|]. intros h. left. unfold get. rewrite Hh. reflexivity.
Qed.

Lemma fx_trans items a b c : fx items a b -> fx items b c -> fx items a c.
Proof.
  intros (A1 & ea & Ta & Ha) (B1 & eb & Tb & Hb). split; [congruence|]. exists (eb ++ ea).
  split; [rewrite Tb, Ta, app_assoc; reflexivity|]. intros h.
  destruct (Ha h) as [Ea|(Ia & fa & oa & Ga & Oa & Ga' & Ina)]; destruct (Hb h) as [Eb|(Ib & fb & ob & Gb & Ob & Gb' & Inb)].
  - left. congruence.
  - right. split; [exact Ib|]. exists fb, ob. rewrite <- Ea. split; [exact Gb|]. split; [exact Ob|]. split; [exact Gb'|].
    apply in_or_app. left. exact Inb.
  - right. split; [exact Ia|]. exists fa, oa. split; [exact Ga|]. split; [exact Oa|]. split; [congruence|].
    apply in_or_app. right. exact Ina.
  - rewrite Ga' in Gb. inversion Gb; subst fb. cbn in Ob. discriminate.
Qed.

Lemma fx_emit items e s : fx items s (emit e s).
Proof.
  split; [reflexivity|]. exists [e]. split; [reflexivity|]. intros h. left. reflexivity.
Qed.

Lemma fx_complete_item items h o s : In h items -> fx items s (complete_item h o s).
Proof.
  intros Hin. unfold complete_item. destruct (get h s) as [f|] eqn:G; [|apply fx_refl].
  destruct (f_out f) eqn:O; [apply fx_refl|].
  split; [reflexivity|]. exists [EvItemDone h o]. split; [reflexivity|]. intros h0.
  change (get h0 (emit (EvItemDone h o) (put h (mkFut (Some o) (f_kind f)) s))) with (get h0 (put h (mkFut (Some o) (f_kind f)) s)).
  rewrite get_put. destruct (fid_eqb h0 h) eqn:E; [|left; reflexivity].
  apply fid_eqb_eq in E. subst h0. right. split; [exact Hin|]. exists f, o. split; [exact G|]. split; [exact O|].
  split; [reflexivity|left; reflexivity].
Qed.

Lemma fx_flush_body all items : (forall h, In h items -> In h all) ->
  forall i ra s, fx all s (fst (flush_body items i ra s)).
Proof.
  induction items as [|h rest IH]; intros Hsub i ra s; simpl.
  - destruct ra as [[k e]|]; apply fx_refl.
  - assert (Hh : In h all) by (apply Hsub; left; reflexivity).
    assert (Hrest : forall h', In h' rest -> In h' all) by (intros h' Hi; apply Hsub; right; exact Hi).
    destruct ra as [[k e]|].
    + destruct (Z.eqb i k); [apply fx_refl|]. eapply fx_trans; [|apply IH; exact Hrest].
      destruct (get h s) as [[o [ | kind idx key [v|e'|] | | ]]|]; try apply fx_refl; apply fx_complete_item; exact Hh.
    + eapply fx_trans; [|apply IH; exact Hrest].
      destruct (get h s) as [[o [ | kind idx key [v|e'|] | | ]]|]; try apply fx_refl; apply fx_complete_item; exact Hh.
Qed.

Lemma fx_fold all o items : (forall h, In h items -> In h all) ->
  forall s, fx all s (fold_left (fun s h => complete_item h o s) items s).
Proof.
  induction items as [|h rest IH]; intros Hsub s; cbn [fold_left]; [apply fx_refl|].
  eapply fx_trans; [apply fx_complete_item; apply Hsub; left; reflexivity|].
  apply IH. intros h' Hi. apply Hsub. right. exact Hi.
Qed.

(* the state just before put_batch marks the batch done *)
Lemma flush_batch_fx P k s : b_done (get_batch k s) = false ->
  exists s3, fx (b_items (get_batch k s)) s s3 /\
             flush_batch P k s = put_batch k (mkB (b_items (get_batch k s)) true) s3.
Proof.
  intros Hd. unfold flush_batch. rewrite Hd. set (items := b_items (get_batch k s)).
  set (s0 := if Z.eqb (cur_idx (fst k) s) (snd k) then with_cur s (upd Z.eqb (fst k) (snd k + 1) (cur s)) else s).
  assert (F0 : fx items s s0) by (unfold s0; destruct (Z.eqb _ _); [apply fx_view; reflexivity|apply fx_refl]).
  set (s1 := emit (EvFlush (fst k) (snd k) items) s0).
  pose proof (fx_flush_body items items (fun h H => H) 0 (ks_raise (kspec_of P (fst k))) s1) as F2.
  destruct (flush_body items 0 (ks_raise (kspec_of P (fst k))) s1) as [s2 err]. cbn [fst] in F2.
  set (fill := match err with Some e => Err e | None => Err E_NOTSET end).
  pose proof (fx_fold items fill items (fun h H => H) s2) as F3.
  set (s3 := fold_left (fun s h => complete_item h fill s) items s2) in *.
  assert (F : fx items s s3).
  { eapply fx_trans; [|exact F3]. eapply fx_trans; [|exact F2]. eapply fx_trans; [exact F0|apply fx_emit]. }
  exists s3. split; [exact F|]. destruct F as [Fb _].
  assert (E : get_batch k s3 = get_batch k s) by (unfold get_batch; rewrite Fb; reflexivity).
  rewrite E. reflexivity.
Qed.

Lemma BI_flush_batch P k s : BI s -> BI (flush_batch P k s).
Proof.
  intros B. destruct (b_done (get_batch k s)) eqn:Hd; [rewrite (flush_done_is_noop P k s Hd); exact B|].
  destruct (flush_batch_fx P k s Hd) as (s3 & (Fb & evs & T & Fh) & ->).
  assert (GB : forall k', get_batch k' s3 = get_batch k' s) by (intros k'; unfold get_batch; rewrite Fb; reflexivity).
  intros k' h Hin.
  change (get h (put_batch k (mkB (b_items (get_batch k s)) true) s3)) with (get h s3).
  destruct (key_eqb k' k) eqn:E.
  - apply key_eqb_eq in E. subst k'. rewrite get_batch_put_same in *. cbn [b_items b_done] in *.
    destruct (B k h Hin) as (out & key & a & G & _).
    destruct (Fh h) as [Eh|(_ & f & o & Gf & _ & Gf' & _)].
    + exists out, key, a. split; [congruence|discriminate].
    + rewrite G in Gf. inversion Gf; subst f. cbn [f_kind] in Gf'. exists (Some o), key, a. split; [exact Gf'|discriminate].
  - assert (N : k' <> k) by (intros ->; rewrite key_eqb_refl in E; discriminate).
    rewrite get_batch_put_other in * by exact N. rewrite GB in *.
    destruct (B k' h Hin) as (out & key & a & G & Hout).
    destruct (Fh h) as [Eh|(Hk & f & o & Gf & _ & _ & _)].
    + exists out, key, a. split; [congruence|exact Hout].
    + destruct (B k h Hk) as (out2 & key2 & a2 & G2 & _). rewrite G in G2. inversion G2.
      exfalso. apply N. destruct k, k'. cbn in *. congruence.
Qed.

(* a flush of a pending batch completes every one of its items: the event is emitted *)
Lemma flush_batch_completes P k s : BI s -> b_done (get_batch k s) = false ->
  forall evs, trace (flush_batch P k s) = evs ++ trace s ->
  forall h, In h (b_items (get_batch k s)) -> exists o, In (EvItemDone h o) evs.
Proof.
  intros B Hd evs T h Hin. destruct (B k h Hin) as (out & key & a & G & Hout). specialize (Hout Hd). subst out.
  destruct (flush_pending P k s Hd) as (_ & _ & Hc & _). cbn zeta in Hc.
  assert (C : computed h (flush_batch P k s) = true) by (apply Hc; [exact Hin|congruence]).
  destruct (flush_batch_fx P k s Hd) as (s3 & (Fb & evs' & T' & Fh) & E). rewrite E in C, T.
  change (computed h (put_batch k (mkB (b_items (get_batch k s)) true) s3)) with (computed h s3) in C.
  change (trace (put_batch k (mkB (b_items (get_batch k s)) true) s3)) with (trace s3) in T.
  assert (evs = evs') by (apply (app_inv_tail (trace s)); rewrite <- T, <- T'; reflexivity). subst evs'.
  destruct (Fh h) as [Eh|(_ & f & o & _ & _ & _ & Hev)].
  - unfold computed in C. rewrite Eh, G in C. discriminate.
  - exists o. exact Hev.
Qed.

Lemma BI_continue_with_batch P s : BI s -> BI (continue_with_batch P s).
Proof.
  intros B. unfold continue_with_batch. pose proof (keep_select P s) as K.
  destruct (select P s) as [[k|] s1]; cbn [snd] in K; [|exact (BI_keep _ _ B K)].
  apply (BI_keep (flush_batch P k (emit (EvBefore (fst k) (snd k)) (with_sb s1 (filter (fun k' => negb (key_eqb k' k)) (sb s1)))))); [|apply keep_emit].
  apply BI_flush_batch. apply (BI_keep s); [exact B|]. eapply keep_trans; [exact K|]. kk.
Qed.

(* ------------------------------------------------------------------ BI along transitions *)
Ltac destr_eq :=
  repeat match goal with
  | |- context [match ?x with _ => _ end] => destruct x eqn:?
  | |- context [if ?x then _ else _] => destruct x eqn:?
  end; cbn [c_st].

Ltac kh :=
  repeat match goal with
  | |- keep ?s ?s => apply keep_refl
  | |- keep _ _ => eassumption
  | |- keep _ (emit _ _) => eapply keep_trans; [|apply keep_emit]
  | |- keep _ (set_task _ _ _) =>
      eapply keep_trans; [|first [eapply keep_set_task; eassumption | eapply keep_set_task'; eassumption]]
  | |- keep _ (put _ _ _) => eapply keep_trans; [|eapply keep_put_lazy; eassumption]
  | |- keep _ (pop_task _) => eapply keep_trans; [|apply keep_pop_task]
  | |- keep _ (with_tasks _ _) => eapply keep_trans; [|apply keep_with_tasks]
  | |- keep _ (with_active _ _) => eapply keep_trans; [|apply keep_with_active]
  | |- keep _ (reset_sched _) => eapply keep_trans; [|apply keep_reset_sched]
  | |- keep _ (drop_sb _) => eapply keep_trans; [|apply keep_drop_sb]
  | |- keep _ (resume_contexts _ _) => eapply keep_trans; [|apply keep_resume_contexts]
  | |- keep _ (pause_contexts _ _) => eapply keep_trans; [|apply keep_pause_contexts]
  | |- keep _ (complete_task _ _ _) => eapply keep_trans; [|apply keep_complete_task]
  | |- keep _ (accept_error _ _ _) => eapply keep_trans; [|apply keep_accept_error]
  | |- keep _ (enter_ctx _ _ _) => eapply keep_trans; [|apply keep_enter_ctx]
  | |- keep _ (exit_ctx _ _ _) => eapply keep_trans; [|apply keep_exit_ctx]
  | |- keep _ (schedule_batch _ _) => eapply keep_trans; [|apply keep_schedule_batch]
  end.

Theorem BI_step P c : dom (c_st c) -> BI (c_st c) -> BI (c_st (step P c)).
Proof.
  destruct c as [m fr s]. cbn [c_st]. intros D B.
  assert (Q : forall s', keep s s' -> BI s') by (intros s'; apply BI_keep; exact B).
  destruct m as [h| | | |t|t p| |o|e|o|]; cbn [step c_mode c_frames c_st];
    try (destr_eq; first [exact B | apply BI_flush_batch; exact B | apply BI_continue_with_batch; exact B | (apply Q; kh)]; fail).
  (* MRun *)
  destruct p as [v|v|e|y k|f k|h k|cx k|cx k|var k|k]; cbn [c_st];
    try (destr_eq; first [exact B | (apply Q; kh)]; fail).
  - pose proof (DB_inst t y s (conj D B)) as [D1 B1]. destruct (inst t y s) as [y' s1]. cbn [snd] in D1, B1.
    destruct (get_task t s1) as [tk|] eqn:G; cbn [c_st]; [|exact B1].
    destruct (futs (extract y')); cbn [c_st]; (apply (BI_keep s1); [exact B1|]); kh.
  - pose proof (BI_create t f s D B) as B1. destruct (create t f s) as [h s1]. cbn [snd c_st] in *. exact B1.
Qed.

(* ------------------------------------------------------------------ T3: what select picks *)
Theorem select_nonempty_pending P s k s1 :
  select P s = (Some k, s1) -> b_items (get_batch k s) <> [] /\ b_done (get_batch k s) = false.
Proof.
  intros Sel. destruct (select_spec _ _ _ _ Sel) as (_ & Hel & _). unfold eligible in Hel.
  apply andb_true_iff in Hel as [Hd Hne]. apply negb_true_iff in Hd. split; [|exact Hd].
  intros E. rewrite E in Hne. discriminate.
Qed.

(* ------------------------------------------------------------------ blocks *)
(* the completions [dones] of one flush of [items]: only items of the batch, and every one of them *)
Definition served (items : list fid) (dones : list event) : Prop :=
  Forall (done_in items) dones /\ forall h, In h items -> exists o, In (EvItemDone h o) dones.

Lemma served_rev items dones : served items dones -> served items (rev dones).
Proof.
  intros [F C]. split; [apply Forall_rev; exact F|]. intros h Hin. destruct (C h Hin) as (o & Ho).
  exists o. apply in_rev. rewrite rev_involutive. exact Ho.
Qed.

(* newest-first (the order of [trace s]) *)
Inductive blocksR : list event -> Prop :=
| blocksR_nil : blocksR []
| blocksR_tame e tr : tame e -> blocksR tr -> blocksR (e :: tr)
| blocksR_sync kind idx items dones tr :
    served items dones -> blocksR tr ->
    blocksR (dones ++ EvFlush kind idx items :: tr)
| blocksR_sched kind idx items dones tr :
    items <> [] -> served items dones -> blocksR tr ->
    blocksR (EvAfter kind idx :: dones ++ EvFlush kind idx items :: EvBefore kind idx :: tr).

(* chronological (the order of [snd (run_case ...)]): tame events, flushes forced by a synchronous
   item.value() (no bracket events), scheduler flushes (bracketed, never empty) *)
Inductive blocks : list event -> Prop :=
| blocks_nil : blocks []
| blocks_tame e tr : tame e -> blocks tr -> blocks (e :: tr)
| blocks_sync kind idx items dones tr :
    served items dones -> blocks tr ->
    blocks (EvFlush kind idx items :: dones ++ tr)
| blocks_sched kind idx items dones tr :
    items <> [] -> served items dones -> blocks tr ->
    blocks (EvBefore kind idx :: EvFlush kind idx items :: dones ++ EvAfter kind idx :: tr).

Lemma blocksR_app a b : blocksR a -> blocksR b -> blocksR (a ++ b).
Proof.
  intros Ha Hb. induction Ha as [|e tr He Ht IH|kind idx items dones tr Hd Ht IH|kind idx items dones tr Hi Hd Ht IH]; [exact Hb| | |].
  - cbn [app]. apply blocksR_tame; assumption.
  - rewrite <- app_assoc. cbn [app]. apply blocksR_sync; assumption.
  - cbn [app]. rewrite <- app_assoc. cbn [app]. apply blocksR_sched; assumption.
Qed.

Lemma blocks_app a b : blocks a -> blocks b -> blocks (a ++ b).
Proof.
  intros Ha Hb. induction Ha as [|e tr He Ht IH|kind idx items dones tr Hd Ht IH|kind idx items dones tr Hi Hd Ht IH]; [exact Hb| | |].
  - cbn [app]. apply blocks_tame; assumption.
  - cbn [app]. rewrite <- app_assoc. apply blocks_sync; assumption.
  - cbn [app]. rewrite <- app_assoc. cbn [app]. apply blocks_sched; assumption.
Qed.

Lemma blocksR_all_tame evs : Forall tame evs -> blocksR evs.
Proof. intros H. induction H as [|e evs He Hf IH]; [constructor|apply blocksR_tame; assumption]. Qed.

Lemma blocksR_rev tr : blocksR tr -> blocks (rev tr).
Proof.
  intros H. induction H as [|e tr He Ht IH|kind idx items dones tr Hd Ht IH|kind idx items dones tr Hi Hd Ht IH]; [constructor| | |].
  - cbn [rev]. apply blocks_app; [exact IH|]. apply blocks_tame; [exact He|constructor].
  - rewrite rev_app_distr. cbn [rev]. rewrite <- !app_assoc. cbn [app].
    apply blocks_app; [exact IH|]. rewrite <- (app_nil_r (rev dones)).
    apply blocks_sync; [apply served_rev; exact Hd|constructor].
  - cbn [rev]. rewrite rev_app_distr. cbn [rev]. rewrite <- !app_assoc. cbn [app].
    apply blocks_app; [exact IH|]. apply blocks_sched; [exact Hi|apply served_rev; exact Hd|constructor].
Qed.

(* one transition: whole blocks (that every item is served needs the heap invariant BI) *)
Definition ok (s s' : st) : Prop :=
  exists evs, trace s' = evs ++ trace s /\ (BI s -> blocksR evs) /\ grows s s' evs.

Lemma mild_ok s s' : mild s s' -> ok s s'.
Proof. intros (evs & T & F & G). exists evs. split; [exact T|]. split; [intros _; apply blocksR_all_tame; exact F|exact G]. Qed.

Lemma ok_refl s : ok s s. Proof. apply mild_ok, mild_refl. Qed.

Lemma served_flush P k s dones :
  BI s -> b_done (get_batch k s) = false ->
  trace (flush_batch P k s) = (dones ++ [EvFlush (fst k) (snd k) (b_items (get_batch k s))]) ++ trace s ->
  Forall (done_in (b_items (get_batch k s))) dones -> served (b_items (get_batch k s)) dones.
Proof.
  intros B Hd T F. split; [exact F|]. intros h Hin.
  destruct (flush_batch_completes P k s B Hd _ T h Hin) as (o & Ho). exists o.
  apply in_app_or in Ho as [Ho|[Ho|[]]]; [exact Ho|discriminate Ho].
Qed.

(* BatchBase.flush called outside the scheduler (item.value()): nothing, or one unbracketed block *)
Lemma ok_flush_batch P k s : ok s (flush_batch P k s).
Proof.
  destruct (b_done (get_batch k s)) eqn:Hd; [rewrite (flush_done_is_noop P k s Hd); apply ok_refl|].
  destruct (flush_batch_ext P k s Hd) as (evs & T & (dones & -> & F) & G).
  exists (dones ++ [EvFlush (fst k) (snd k) (b_items (get_batch k s))]). split; [exact T|]. split; [|exact G].
  intros B. apply blocksR_sync; [exact (served_flush P k s dones B Hd T F)|constructor].
Qed.

Lemma plain_flush_batch P k s :
  exists evs, trace (flush_batch P k s) = evs ++ trace s /\ Forall plain evs.
Proof.
  destruct (b_done (get_batch k s)) eqn:Hd.
  - rewrite (flush_done_is_noop P k s Hd). exists []. split; [reflexivity|constructor].
  - destruct (flush_batch_ext P k s Hd) as (evs & T & (dones & -> & F) & G).
    exists (dones ++ [EvFlush (fst k) (snd k) (b_items (get_batch k s))]). split; [exact T|].
    apply Forall_app. split; [|repeat constructor].
    revert F. apply Forall_impl. intros e. apply done_in_plain.
Qed.

(* one scheduler flush is one bracketed block *)
Lemma ok_continue_with_batch P s : ok s (continue_with_batch P s).
Proof.
  unfold continue_with_batch. pose proof (mild_select P s) as Q.
  destruct (select P s) as [[k|] s1] eqn:Sel; cbn [snd] in Q; [|apply mild_ok; exact Q].
  destruct (select_nonempty_pending _ _ _ _ Sel) as [Hne Hd].
  pose proof (select_batches P s) as [Hb _]. rewrite Sel in Hb. cbn [snd] in Hb.
  set (s2 := with_sb s1 (filter (fun k' => negb (key_eqb k' k)) (sb s1))).
  set (s3 := emit (EvBefore (fst k) (snd k)) s2).
  assert (Hgb : get_batch k s3 = get_batch k s) by (unfold get_batch, s3, s2; cbn; rewrite Hb; reflexivity).
  rewrite <- Hgb in Hne, Hd.
  destruct (flush_batch_ext P k s3 Hd) as (e4 & T4 & (dones & -> & F) & G4).
  destruct Q as (e1 & T1 & P1 & G1).
  exists (EvAfter (fst k) (snd k) :: dones ++ EvFlush (fst k) (snd k) (b_items (get_batch k s3)) :: EvBefore (fst k) (snd k) :: e1).
  split; [|split].
  - change (trace (emit (EvAfter (fst k) (snd k)) (flush_batch P k s3)))
      with (EvAfter (fst k) (snd k) :: trace (flush_batch P k s3)).
    rewrite T4. change (trace s3) with (EvBefore (fst k) (snd k) :: trace s1). rewrite T1.
    cbn [app]. rewrite <- !app_assoc. reflexivity.
  - intros B. apply blocksR_sched; [exact Hne| |apply blocksR_all_tame; exact P1].
    assert (B3 : BI s3).
    { apply (BI_keep s); [exact B|]. pose proof (keep_select P s) as K. rewrite Sel in K. cbn [snd] in K.
      eapply keep_trans; [exact K|]. unfold s3, s2. kk. }
    exact (served_flush P k s3 dones B3 Hd T4 F).
  - intros D. destruct (G1 D) as [D1 C1].
    assert (D3 : dom s3) by exact D1.
    destruct (G4 D3) as [D4 C4]. split; [exact D4|]. intros h. specialize (C1 h). specialize (C4 h).
    change (computed h s3) with (computed h s1) in C4.
    change (computed h (emit (EvAfter (fst k) (snd k)) (flush_batch P k s3))) with (computed h (flush_batch P k s3)).
    rewrite cnt_app in C4. change (cnt h [EvFlush (fst k) (snd k) (b_items (get_batch k s3))]) with O in C4.
    change (EvAfter (fst k) (snd k) :: dones ++ EvFlush (fst k) (snd k) (b_items (get_batch k s3)) :: EvBefore (fst k) (snd k) :: e1)
      with ([EvAfter (fst k) (snd k)] ++ dones ++ [EvFlush (fst k) (snd k) (b_items (get_batch k s3)); EvBefore (fst k) (snd k)] ++ e1).
    rewrite !cnt_app.
    change (cnt h [EvAfter (fst k) (snd k)]) with O.
    change (cnt h [EvFlush (fst k) (snd k) (b_items (get_batch k s3)); EvBefore (fst k) (snd k)]) with O.
    lia.
Qed.

(* ------------------------------------------------------------------ one transition *)
Ltac mh :=
  repeat match goal with
  | |- mild ?s ?s => apply mild_refl
  | |- mild _ _ => eassumption
  | |- mild _ (emit _ _) => eapply mild_trans; [|apply mild_emit; exact I]
  | |- mild _ (set_task _ _ _) => eapply mild_trans; [|apply mild_set_task]
  | |- mild _ (put _ (mkFut (Some _) _) _) => eapply mild_trans; [|apply mild_put_some; congruence]
  | |- mild _ (pop_task _) => eapply mild_trans; [|apply mild_pop_task]
  | |- mild _ (with_tasks _ _) => eapply mild_trans; [|apply mild_with_tasks]
  | |- mild _ (with_active _ _) => eapply mild_trans; [|apply mild_with_active]
  | |- mild _ (reset_sched _) => eapply mild_trans; [|apply mild_reset_sched]
  | |- mild _ (drop_sb _) => eapply mild_trans; [|apply mild_drop_sb]
  | |- mild _ (resume_contexts _ _) => eapply mild_trans; [|apply mild_resume_contexts]
  | |- mild _ (pause_contexts _ _) => eapply mild_trans; [|apply mild_pause_contexts]
  | |- mild _ (complete_task _ _ _) => eapply mild_trans; [|apply mild_complete_task]
  | |- mild _ (accept_error _ _ _) => eapply mild_trans; [|apply mild_accept_error]
  | |- mild _ (enter_ctx _ _ _) => eapply mild_trans; [|apply mild_enter_ctx]
  | |- mild _ (exit_ctx _ _ _) => eapply mild_trans; [|apply mild_exit_ctx]
  | |- mild _ (schedule_batch _ _) => eapply mild_trans; [|apply mild_schedule_batch]
  end.

(* the only transition that emits EvBefore / EvAfter: wait_for found its task still incomplete after
   _execute returned (scheduler.py 63-74) *)
Definition flushes (c : cfg) : bool :=
  match c_mode c, c_frames c with
  | MAfterExec, FWait root :: _ => negb (computed root (c_st c))
  | _, _ => false
  end.

(* the only other transition that flushes: .value() on a batch item that is not computed
   (batching.py 222-228), outside the scheduler's selection and without bracket events *)
Definition syncs (c : cfg) : bool :=
  match c_mode c with
  | MValue h => negb (computed h (c_st c)) &&
                match get h (c_st c) with Some (mkFut _ (KItem _ _ _ _)) => true | _ => false end
  | _ => false
  end.

Lemma flushes_true c : flushes c = true ->
  c_mode c = MAfterExec /\ exists root fr, c_frames c = FWait root :: fr /\ computed root (c_st c) = false.
Proof.
  unfold flushes. destruct (c_mode c); try discriminate. destruct (c_frames c) as [|[| |root| |] fr]; try discriminate.
  intros H. apply negb_true_iff in H. split; [reflexivity|]. exists root, fr. split; [reflexivity|exact H].
Qed.

Lemma syncs_true c : syncs c = true ->
  exists h out kind idx key a,
    c_mode c = MValue h /\ computed h (c_st c) = false /\ get h (c_st c) = Some (mkFut out (KItem kind idx key a)).
Proof.
  unfold syncs. destruct (c_mode c) as [h| | | |t|t p| |o|e|o|]; try discriminate.
  intros H. apply andb_true_iff in H as [H1 H2]. apply negb_true_iff in H1.
  destruct (get h (c_st c)) as [[out [tk|kind idx key a|o|]]|] eqn:G; try discriminate.
  exists h, out, kind, idx, key, a. auto.
Qed.

Theorem step_mild P c : flushes c = false -> syncs c = false -> mild (c_st c) (c_st (step P c)).
Proof.
  destruct c as [m fr s]. unfold flushes, syncs. cbn [c_st c_mode c_frames]. intros HE HS.
  destruct m as [h| | | |t|t p| |o|e|o|]; cbn [step c_mode c_frames c_st];
    try (destr_eq; mh; fail).
  - (* MValue *)
    destruct (computed h s) eqn:C; cbn [c_st]; [apply mild_refl|].
    destruct (get h s) as [[out [tk|kind idx key a|o|]]|] eqn:G; cbn [c_st]; try (mh; fail).
    cbn in HS. discriminate HS.
  - (* MAfterExec *)
    destruct fr as [|[| |root| |] fr']; cbn [c_st]; try apply mild_refl.
    destruct (computed root s) eqn:C; cbn [c_st]; [apply mild_drop_sb|cbn in HE; discriminate].
  - (* MRun *)
    destruct p as [v|v|e|y k|f k|h k|cx k|cx k|var k|k]; cbn [c_st];
      try (destr_eq; mh; fail).
    + pose proof (mild_inst t y s) as Qi. destruct (inst t y s) as [y' s1]. cbn [snd] in Qi.
      destruct (get_task t s1) as [tk|] eqn:G; cbn [c_st]; [|exact Qi].
      destruct (futs (extract y')); cbn [c_st]; mh.
    + pose proof (mild_create t f s) as Qi. destruct (create t f s) as [h s1]. cbn [snd c_st] in *. exact Qi.
Qed.

Lemma step_syncs P c : syncs c = true -> exists k, c_st (step P c) = flush_batch P k (c_st c).
Proof.
  intros E. destruct (syncs_true c E) as (h & out & kind & idx & key & a & Hm & Hc & Hg).
  destruct c as [m fr s]. cbn [c_mode c_st] in *. subst m. cbn [step c_mode c_frames c_st].
  rewrite Hc, Hg. cbn [c_st]. exists (kind, idx). reflexivity.
Qed.

Theorem step_ok P c : ok (c_st c) (c_st (step P c)).
Proof.
  destruct (flushes c) eqn:E.
  - destruct (flushes_true c E) as (Hm & root & fr & Hf & Hc). destruct c as [m fr0 s]. cbn [c_mode c_frames c_st] in *.
    subst m fr0. cbn [step c_mode c_frames c_st]. rewrite Hc. cbn [c_st]. apply ok_continue_with_batch.
  - destruct (syncs c) eqn:E2; [|apply mild_ok; apply step_mild; assumption].
    destruct (step_syncs P c E2) as (k & ->). apply ok_flush_batch.
Qed.

(* every transition but the scheduler's flush emits plain events only *)
Theorem step_plain P c : flushes c = false ->
  exists evs, trace (c_st (step P c)) = evs ++ trace (c_st c) /\ Forall plain evs.
Proof.
  intros E. destruct (syncs c) eqn:E2.
  - destruct (step_syncs P c E2) as (k & ->). apply plain_flush_batch.
  - destruct (step_mild P c E E2) as (evs & T & F & _). exists evs. split; [exact T|].
    revert F. apply Forall_impl. exact tame_plain.
Qed.

(* ------------------------------------------------------------------ T2, step level *)
(* a bracket event (EvBefore or EvAfter) gained by one transition comes from the scheduler's flush
   transition: mode MAfterExec, innermost frame FWait root, root not computed - for EVERY configuration *)
Theorem step_bracket_origin P c evs e :
  trace (c_st (step P c)) = evs ++ trace (c_st c) -> In e evs -> ~ plain e ->
  c_mode c = MAfterExec /\ exists root fr, c_frames c = FWait root :: fr /\ computed root (c_st c) = false.
Proof.
  intros T Hin Hnp. destruct (flushes c) eqn:E; [exact (flushes_true c E)|].
  destruct (step_plain P c E) as (evs' & T' & F).
  assert (evs = evs') by (apply (app_inv_tail (trace (c_st c))); rewrite <- T, <- T'; reflexivity). subst evs'.
  rewrite Forall_forall in F. destruct (Hnp (F e Hin)).
Qed.

Theorem step_before_only_when_waiting P c evs kind idx :
  trace (c_st (step P c)) = evs ++ trace (c_st c) -> In (EvBefore kind idx) evs ->
  c_mode c = MAfterExec /\ exists root fr, c_frames c = FWait root :: fr /\ computed root (c_st c) = false.
Proof. intros T Hin. apply (step_bracket_origin P c evs (EvBefore kind idx) T Hin). intros H. exact H. Qed.

Lemma step_trace P c : exists evs, trace (c_st (step P c)) = evs ++ trace (c_st c).
Proof. destruct (step_ok P c) as (evs & T & _). exists evs. exact T. Qed.

(* ------------------------------------------------------------------ T2, run level *)
Theorem run_before_origin P n : forall c0 kind idx,
  In (EvBefore kind idx) (trace (c_st (run P n c0))) ->
  In (EvBefore kind idx) (trace (c_st c0)) \/
  exists k root fr evs,
    (k < n)%nat /\ c_mode (run P k c0) = MAfterExec /\ c_frames (run P k c0) = FWait root :: fr /\
    computed root (c_st (run P k c0)) = false /\
    trace (c_st (run P (S k) c0)) = evs ++ trace (c_st (run P k c0)) /\ In (EvBefore kind idx) evs.
Proof.
  induction n as [|n IH]; intros c0 kind idx H; [left; exact H|].
  rewrite run_S in H. destruct (is_final (c_mode c0)) eqn:Hf; [left; exact H|].
  assert (R : forall j, run P (S j) c0 = run P j (step P c0)) by (intros j; rewrite run_S, Hf; reflexivity).
  destruct (IH (step P c0) kind idx H) as [Hin|(k & root & fr & evs & Hk & Hm & Hfr & Hc & Ht & Hi)].
  - destruct (step_trace P c0) as (evs & T). rewrite T in Hin. apply in_app_or in Hin as [Hin|Hin]; [|left; exact Hin].
    right. destruct (step_before_only_when_waiting P c0 evs kind idx T Hin) as (Hm & root & fr & Hfr & Hc).
    exists O, root, fr, evs. rewrite R. cbn [run]. split; [lia|]. auto.
  - right. exists (S k), root, fr, evs. rewrite !R. split; [lia|]. auto.
Qed.

(* ------------------------------------------------------------------ the invariant *)
Definition Inv (s : st) : Prop :=
  dom s /\ BI s /\ blocksR (trace s) /\ forall h, (cnt h (trace s) <= b2n (computed h s))%nat.

Lemma Inv_ok s s' : Inv s -> ok s s' -> BI s' -> Inv s'.
Proof.
  intros (D & Bi & B & C) (evs & T & Be & G) Bi'. destruct (G D) as [D' C']. split; [exact D'|]. split; [exact Bi'|]. split.
  - rewrite T. apply blocksR_app; [exact (Be Bi)|exact B].
  - intros h. rewrite T, cnt_app. specialize (C h). specialize (C' h). lia.
Qed.

Lemma Inv_mild s s' : Inv s -> mild s s' -> BI s' -> Inv s'.
Proof. intros HI M. exact (Inv_ok s s' HI (mild_ok s s' M)). Qed.

Theorem Inv_step P c : Inv (c_st c) -> Inv (c_st (step P c)).
Proof.
  intros HI. apply (Inv_ok _ _ HI (step_ok P c)). destruct HI as (D & Bi & _). exact (BI_step P c D Bi).
Qed.

Lemma Inv_run P n : forall c, Inv (c_st c) -> Inv (c_st (run P n c)).
Proof.
  induction n as [|n IH]; intros c HF; [exact HF|]. rewrite run_S.
  destruct (is_final (c_mode c)); [exact HF|]. apply IH. apply Inv_step. exact HF.
Qed.

Lemma Inv_st0 P : Inv (st0 P).
Proof.
  split; [intros h Hh; cbn in Hh; congruence|]. split; [intros k h []|]. split; [constructor|]. intros h. cbn. lia.
Qed.

Lemma Inv_run_root P fuel p s : Inv s -> Inv (snd (run_root P fuel p s)).
Proof.
  intros HF. unfold run_root.
  pose proof (mild_create [] (FTask p) s) as Qc.
  assert (Bc : BI (snd (create [] (FTask p) s))) by (destruct HF as (D & Bi & _); exact (BI_create [] (FTask p) s D Bi)).
  destruct (create [] (FTask p) s) as [h s1]. cbn [snd] in Qc, Bc.
  assert (H1 : Inv s1).
  { apply (Inv_mild s); [exact HF|exact Qc|exact Bc]. }
  pose proof (Inv_run P fuel (mkC (MValue h) [FTop] s1) H1) as H2.
  set (c := run P fuel (mkC (MValue h) [FTop] s1)) in *.
  assert (H3 : Inv (emit (EvSched (Z.of_nat (length (tasks (c_st c)))) (Z.of_nat (length (sb (c_st c)))) (active (c_st c))) (c_st c))).
  { apply (Inv_mild (c_st c)); [exact H2|apply mild_emit; exact I|].
    destruct H2 as (_ & Bi & _). apply (BI_keep (c_st c)); [exact Bi|apply keep_emit]. }
  destruct (c_mode c); exact H3.
Qed.

Lemma Inv_run_history P fuel ps : forall s, Inv s -> Inv (snd (run_history P fuel ps s)).
Proof.
  induction ps as [|p ps IH]; intros s HF; [exact HF|]. cbn [run_history].
  pose proof (Inv_run_root P fuel p s HF) as H1. destruct (run_root P fuel p s) as [o s1]. cbn [snd] in H1.
  specialize (IH s1 H1). destruct (run_history P fuel ps s1) as [os s2]. exact IH.
Qed.

Lemma Inv_run_case P fuel ps : exists s, snd (run_case P fuel ps) = rev (trace s) /\ Inv s.
Proof.
  unfold run_case. pose proof (Inv_run_history P fuel ps (st0 P) (Inv_st0 P)) as H.
  destruct (run_history P fuel ps (st0 P)) as [os s]. cbn [snd] in *. exists s. split; [reflexivity|exact H].
Qed.

(* ------------------------------------------------------------------ T1 *)
Lemma cnt_rev h tr : cnt h (rev tr) = cnt h tr.
Proof.
  induction tr as [|e tr IH]; [reflexivity|]. cbn [rev]. rewrite cnt_app, IH.
  change (e :: tr) with ([e] ++ tr). rewrite cnt_app. lia.
Qed.

Theorem run_case_item_done_at_most_once P fuel ps h : (cnt h (snd (run_case P fuel ps)) <= 1)%nat.
Proof.
  destruct (Inv_run_case P fuel ps) as (s & -> & (_ & _ & _ & C)). rewrite cnt_rev. specialize (C h).
  destruct (computed h s); cbn in C; lia.
Qed.

(* the same for one run of the machine from any state satisfying the invariant; moreover an item
   whose completion event is in the trace is computed *)
Theorem run_item_done_at_most_once P n c h :
  Inv (c_st c) ->
  (cnt h (trace (c_st (run P n c))) <= 1)%nat /\
  (forall o, In (EvItemDone h o) (trace (c_st (run P n c))) -> computed h (c_st (run P n c)) = true).
Proof.
  intros HI. destruct (Inv_run P n c HI) as (_ & _ & _ & C). specialize (C h). split.
  - destruct (computed h (c_st (run P n c))); cbn in C; lia.
  - intros o Hin. destruct (computed h (c_st (run P n c))); [reflexivity|]. cbn in C.
    assert (Hpos : (1 <= cnt h (trace (c_st (run P n c))))%nat).
    { unfold cnt. assert (Hf : In (EvItemDone h o) (filter (is_item h) (trace (c_st (run P n c))))).
      { apply filter_In. split; [exact Hin|]. cbn. apply fid_eqb_refl. }
      destruct (filter (is_item h) (trace (c_st (run P n c)))); [destruct Hf|cbn; lia]. }
    lia.
Qed.

(* ------------------------------------------------------------------ T3 + T4 *)
Theorem run_case_blocks P fuel ps : blocks (snd (run_case P fuel ps)).
Proof. destruct (Inv_run_case P fuel ps) as (s & -> & (_ & _ & B & _)). apply blocksR_rev. exact B. Qed.

(* the same for one run of the machine from any state satisfying the invariant *)
Theorem run_blocks P n c : Inv (c_st c) -> blocks (rev (trace (c_st (run P n c)))).
Proof. intros HI. destruct (Inv_run P n c HI) as (_ & _ & B & _). apply blocksR_rev. exact B. Qed.

Lemma app_eq_split {A} (a b : list A) x : forall c d,
  a ++ b = c ++ x :: d ->
  (exists a2, a = c ++ x :: a2 /\ d = a2 ++ b) \/ (exists c', c = a ++ c' /\ b = c' ++ x :: d).
Proof.
  induction a as [|y a IH]; intros c d H; cbn [app] in H.
  - right. exists c. split; [reflexivity|exact H].
  - destruct c as [|z c]; cbn [app] in H; injection H as Hy Ht.
    + subst y d. left. exists a. split; reflexivity.
    + subst z. destruct (IH c d Ht) as [(a2 & -> & ->)|(c' & -> & ->)].
      * left. exists a2. split; reflexivity.
      * right. exists c'. split; reflexivity.
Qed.

Lemma done_in_mid items l x r : Forall (done_in items) (l ++ x :: r) -> done_in items x /\ Forall (done_in items) l.
Proof. intros H. apply Forall_app in H as [Hl Hr]. inversion Hr; subst. auto. Qed.

(* every EvBefore is immediately followed by the EvFlush of the same batch with a non-empty item list,
   then only completions of items of that batch, then the EvAfter of the same batch *)
Lemma blocks_before tr : blocks tr -> forall l1 l2 kind idx,
  tr = l1 ++ EvBefore kind idx :: l2 ->
  exists items dones l3, l2 = EvFlush kind idx items :: dones ++ EvAfter kind idx :: l3 /\
                         items <> [] /\ served items dones.
Proof.
  intros H. induction H as [|e tr He Ht IH|k0 i0 items dones tr Hd Ht IH|k0 i0 items dones tr Hi Hd Ht IH];
    intros l1 l2 kind idx E.
  - destruct l1; discriminate.
  - destruct l1 as [|x l1]; cbn [app] in E; injection E as Ex Et.
    + subst e. destruct He.
    + exact (IH l1 l2 kind idx Et).
  - destruct l1 as [|x l1]; cbn [app] in E; [discriminate E|]. injection E as Ex Et.
    destruct (app_eq_split _ _ _ _ _ Et) as [(a2 & -> & _)|(c' & -> & Hc)].
    + destruct (done_in_mid _ _ _ _ (proj1 Hd)) as [Hx _]. destruct Hx.
    + exact (IH c' l2 kind idx Hc).
  - destruct l1 as [|x l1]; cbn [app] in E; injection E as Ex Et.
    + inversion Ex; subst. exists items, dones, tr. auto.
    + destruct l1 as [|y l1]; cbn [app] in Et; [discriminate Et|]. injection Et as Ey Et.
      destruct (app_eq_split _ _ _ _ _ Et) as [(a2 & -> & _)|(c' & -> & Hc)].
      * destruct (done_in_mid _ _ _ _ (proj1 Hd)) as [Hx _]. destruct Hx.
      * destruct c' as [|z c']; cbn [app] in Hc; [discriminate Hc|]. injection Hc as Ez Hc.
        exact (IH c' l2 kind idx Hc).
Qed.

(* every EvAfter closes such a block *)
Lemma blocks_after tr : blocks tr -> forall l1 l2 kind idx,
  tr = l1 ++ EvAfter kind idx :: l2 ->
  exists items dones l0, l1 = l0 ++ EvBefore kind idx :: EvFlush kind idx items :: dones /\
                         items <> [] /\ served items dones.
Proof.
  intros H. induction H as [|e tr He Ht IH|k0 i0 items dones tr Hd Ht IH|k0 i0 items dones tr Hi Hd Ht IH];
    intros l1 l2 kind idx E.
  - destruct l1; discriminate.
  - destruct l1 as [|x l1]; cbn [app] in E; injection E as Ex Et.
    + subst e. destruct He.
    + destruct (IH l1 l2 kind idx Et) as (items & dones & l0 & -> & Hi & Hd).
      exists items, dones, (x :: l0). auto.
  - destruct l1 as [|x l1]; cbn [app] in E; [discriminate E|]. injection E as Ex Et.
    destruct (app_eq_split _ _ _ _ _ Et) as [(a2 & -> & _)|(c' & -> & Hc)].
    + destruct (done_in_mid _ _ _ _ (proj1 Hd)) as [Hx _]. destruct Hx.
    + destruct (IH c' l2 kind idx Hc) as (items' & dones' & l0 & -> & Hi' & Hd').
      exists items', dones', (x :: dones ++ l0). split; [|auto]. cbn [app]. rewrite <- app_assoc. reflexivity.
  - destruct l1 as [|x l1]; cbn [app] in E; [discriminate E|]. injection E as Ex Et.
    destruct l1 as [|y l1]; cbn [app] in Et; [discriminate Et|]. injection Et as Ey Et.
    destruct (app_eq_split _ _ _ _ _ Et) as [(a2 & -> & _)|(c' & -> & Hc)].
    + destruct (done_in_mid _ _ _ _ (proj1 Hd)) as [Hx _]. destruct Hx.
    + subst x y. destruct c' as [|z c']; cbn [app] in Hc; injection Hc as Ez Hc.
      * inversion Ez; subst. exists items, dones, []. rewrite app_nil_r. auto.
      * destruct (IH c' l2 kind idx Hc) as (items' & dones' & l0 & -> & Hi' & Hd').
        exists items', dones', (EvBefore k0 i0 :: EvFlush k0 i0 items :: dones ++ EvAfter k0 i0 :: l0).
        split; [|auto]. subst z. cbn [app]. rewrite <- app_assoc. reflexivity.
Qed.

(* every item completion belongs to a flush of a batch that contains the item: it is preceded by that
   flush's EvFlush with only completions of items of the same batch in between *)
Lemma blocks_item tr : blocks tr -> forall l1 l2 h o,
  tr = l1 ++ EvItemDone h o :: l2 ->
  exists kind idx items l0 dones, l1 = l0 ++ EvFlush kind idx items :: dones /\
                                  In h items /\ Forall (done_in items) dones.
Proof.
  intros H. induction H as [|e tr He Ht IH|k0 i0 items dones tr Hd Ht IH|k0 i0 items dones tr Hi Hd Ht IH];
    intros l1 l2 h o E.
  - destruct l1; discriminate.
  - destruct l1 as [|x l1]; cbn [app] in E; injection E as Ex Et.
    + subst e. destruct He.
    + destruct (IH l1 l2 h o Et) as (kind & idx & items & l0 & dones & -> & Hi & Hd).
      exists kind, idx, items, (x :: l0), dones. auto.
  - destruct l1 as [|x l1]; cbn [app] in E; [discriminate E|]. injection E as Ex Et. subst x.
    destruct (app_eq_split _ _ _ _ _ Et) as [(a2 & -> & _)|(c' & -> & Hc)].
    + destruct (done_in_mid _ _ _ _ (proj1 Hd)) as [Hx Hl]. exists k0, i0, items, [], l1. auto.
    + destruct (IH c' l2 h o Hc) as (kind & idx & items' & l0 & dones' & -> & Hi' & Hd').
      exists kind, idx, items', (EvFlush k0 i0 items :: dones ++ l0), dones'. split; [|auto].
      cbn [app]. rewrite <- app_assoc. reflexivity.
  - destruct l1 as [|x l1]; cbn [app] in E; [discriminate E|]. injection E as Ex Et.
    destruct l1 as [|y l1]; cbn [app] in Et; [discriminate Et|]. injection Et as Ey Et. subst x y.
    destruct (app_eq_split _ _ _ _ _ Et) as [(a2 & -> & _)|(c' & -> & Hc)].
    + destruct (done_in_mid _ _ _ _ (proj1 Hd)) as [Hx Hl]. exists k0, i0, items, [EvBefore k0 i0], l1. auto.
    + destruct c' as [|z c']; cbn [app] in Hc; injection Hc as Ez Hc; [discriminate Ez|]. subst z.
      destruct (IH c' l2 h o Hc) as (kind & idx & items' & l0 & dones' & -> & Hi' & Hd').
      exists kind, idx, items', (EvBefore k0 i0 :: EvFlush k0 i0 items :: dones ++ EvAfter k0 i0 :: l0), dones'.
      split; [|auto]. cbn [app]. rewrite <- app_assoc. reflexivity.
Qed.

(* every flush body (bracketed or not) is followed by the completions of exactly its items *)
Lemma blocks_flush tr : blocks tr -> forall l1 l2 kind idx items,
  tr = l1 ++ EvFlush kind idx items :: l2 ->
  exists dones l3, l2 = dones ++ l3 /\ served items dones.
Proof.
  intros H. induction H as [|e tr He Ht IH|k0 i0 items0 dones tr Hd Ht IH|k0 i0 items0 dones tr Hi Hd Ht IH];
    intros l1 l2 kind idx items E.
  - destruct l1; discriminate.
  - destruct l1 as [|x l1]; cbn [app] in E; injection E as Ex Et.
    + subst e. destruct He.
    + exact (IH l1 l2 kind idx items Et).
  - destruct l1 as [|x l1]; cbn [app] in E; injection E as Ex Et.
    + inversion Ex; subst. exists dones, tr. auto.
    + destruct (app_eq_split _ _ _ _ _ Et) as [(a2 & -> & _)|(c' & -> & Hc)].
      * destruct (done_in_mid _ _ _ _ (proj1 Hd)) as [Hx _]. destruct Hx.
      * exact (IH c' l2 kind idx items Hc).
  - destruct l1 as [|x l1]; cbn [app] in E; [discriminate E|]. injection E as Ex Et.
    destruct l1 as [|y l1]; cbn [app] in Et; injection Et as Ey Et.
    + inversion Ey; subst. exists dones, (EvAfter kind idx :: tr). auto.
    + destruct (app_eq_split _ _ _ _ _ Et) as [(a2 & -> & _)|(c' & -> & Hc)].
      * destruct (done_in_mid _ _ _ _ (proj1 Hd)) as [Hx _]. destruct Hx.
      * destruct c' as [|z c']; cbn [app] in Hc; [discriminate Hc|]. injection Hc as Ez Hc.
        exact (IH c' l2 kind idx items Hc).
Qed.

Theorem run_case_before_flush_after P fuel ps l1 l2 kind idx :
  snd (run_case P fuel ps) = l1 ++ EvBefore kind idx :: l2 ->
  exists items dones l3, l2 = EvFlush kind idx items :: dones ++ EvAfter kind idx :: l3 /\
                         items <> [] /\ served items dones.
Proof. apply blocks_before. apply run_case_blocks. Qed.

Theorem run_case_after_closes_block P fuel ps l1 l2 kind idx :
  snd (run_case P fuel ps) = l1 ++ EvAfter kind idx :: l2 ->
  exists items dones l0, l1 = l0 ++ EvBefore kind idx :: EvFlush kind idx items :: dones /\
                         items <> [] /\ served items dones.
Proof. apply blocks_after. apply run_case_blocks. Qed.

Theorem run_case_flush_serves_its_items P fuel ps l1 l2 kind idx items :
  snd (run_case P fuel ps) = l1 ++ EvFlush kind idx items :: l2 ->
  exists dones l3, l2 = dones ++ l3 /\ served items dones.
Proof. apply blocks_flush. apply run_case_blocks. Qed.

Lemma cnt_pos h o tr : In (EvItemDone h o) tr -> (1 <= cnt h tr)%nat.
Proof.
  intros Hin. unfold cnt. assert (Hf : In (EvItemDone h o) (filter (is_item h) tr)).
  { apply filter_In. split; [exact Hin|]. cbn. apply fid_eqb_refl. }
  destruct (filter (is_item h) tr); [destruct Hf|cbn; lia].
Qed.

(* exactly once, by that flush: an item of a flushed batch has exactly one completion event in the
   whole trace, and it is among the completions of that flush *)
Theorem run_case_item_exactly_once P fuel ps l1 l2 kind idx items h :
  snd (run_case P fuel ps) = l1 ++ EvFlush kind idx items :: l2 -> In h items ->
  cnt h (snd (run_case P fuel ps)) = 1%nat /\
  exists dones l3 o, l2 = dones ++ l3 /\ served items dones /\ In (EvItemDone h o) dones.
Proof.
  intros E Hin. destruct (run_case_flush_serves_its_items P fuel ps l1 l2 kind idx items E) as (dones & l3 & -> & S).
  destruct (proj2 S h Hin) as (o & Ho). split.
  - pose proof (run_case_item_done_at_most_once P fuel ps h) as Hle.
    assert (Hge : (1 <= cnt h (snd (run_case P fuel ps)))%nat).
    { apply (cnt_pos h o). rewrite E. apply in_or_app. right. right. apply in_or_app. left. exact Ho. }
    lia.
  - exists dones, l3, o. auto.
Qed.

Theorem run_case_item_done_by_its_flush P fuel ps l1 l2 h o :
  snd (run_case P fuel ps) = l1 ++ EvItemDone h o :: l2 ->
  exists kind idx items l0 dones, l1 = l0 ++ EvFlush kind idx items :: dones /\
                                  In h items /\ Forall (done_in items) dones.
Proof. apply blocks_item. apply run_case_blocks. Qed.

(* ------------------------------------------------------------------ each bracket event at most once *)
Definition is_before (k : Z * Z) (e : event) : bool :=
  match e with EvBefore kind idx => key_eqb (kind, idx) k | _ => false end.
Definition is_after (k : Z * Z) (e : event) : bool :=
  match e with EvAfter kind idx => key_eqb (kind, idx) k | _ => false end.
Definition count_before (k : Z * Z) (tr : list event) : nat := length (filter (is_before k) tr).
Definition count_after (k : Z * Z) (tr : list event) : nat := length (filter (is_after k) tr).

Lemma dones_no_marks k items dones : Forall (done_in items) dones ->
  filter (is_before k) dones = [] /\ filter (is_after k) dones = [] /\ filter (is_flush k) dones = [].
Proof.
  intros H. induction H as [|e l He Hl IH]; [auto|]. destruct e; cbn in He; try destruct He. cbn. exact IH.
Qed.

Lemma blocks_counts k tr : blocks tr ->
  count_before k tr = count_after k tr /\ (count_before k tr <= count_flush k tr)%nat.
Proof.
  unfold count_before, count_after, count_flush.
  intros H. induction H as [|e tr He Ht IH|k0 i0 items dones tr Hd Ht IH|k0 i0 items dones tr Hi Hd Ht IH];
    [split; [reflexivity|cbn; lia]| | |].
  - destruct IH as [IH1 IH2]. destruct e; cbn [filter is_before is_after is_flush] in *; try destruct He;
      split; assumption.
  - destruct IH as [IH1 IH2]. destruct (dones_no_marks k items dones (proj1 Hd)) as (N1 & N2 & N3).
    cbn [filter is_before is_after is_flush]. rewrite !filter_app, N1, N2, N3. cbn [app].
    destruct (key_eqb (k0, i0) k); cbn [length]; split; lia.
  - destruct IH as [IH1 IH2]. destruct (dones_no_marks k items dones (proj1 Hd)) as (N1 & N2 & N3).
    cbn [filter is_before is_after is_flush]. rewrite !filter_app, N1, N2, N3. cbn [app filter is_before is_after is_flush].
    destruct (key_eqb (k0, i0) k); cbn [length]; split; lia.
Qed.

Theorem run_case_brackets_at_most_once P fuel ps k :
  (count_before k (snd (run_case P fuel ps)) <= 1)%nat /\
  count_after k (snd (run_case P fuel ps)) = count_before k (snd (run_case P fuel ps)).
Proof.
  destruct (blocks_counts k _ (run_case_blocks P fuel ps)) as [E L].
  pose proof (run_case_flush_at_most_once P fuel ps k) as F. split; [lia|symmetry; exact E].
Qed.

(* ------------------------------------------------------------------ non-vacuity *)
Definition c05_ret (o : outcome) : prog := match o with Ok v => Ret v | Err e => Raise e end.

(* one task yields two items of the same batch *)
Definition c05_demo1 : prog :=
  Yield (YTuple [YLeaf (LNew (FItem 0 1 (ASet (VInt 5)))); YLeaf (LNew (FItem 0 2 (ASet (VInt 6))))]) c05_ret.

(* a synchronous call nested inside a task: the inner wait_for does the flush *)
Definition c05_demo2 : prog :=
  Let (FTask (Yield (YLeaf (LNew (FItem 0 1 (ASet (VInt 7))))) c05_ret)) (fun h => Sync h c05_ret).

Example c05_demo_trace :
  run_case (mkP [] 1000 false []) 100%nat [c05_demo1; c05_demo2] =
  ([Some (Ok (VTuple [VInt 5; VInt 6])); Some (Ok (VInt 7))],
   [EvStep [0] 0 (Ok VNone); EvBefore 0 0; EvFlush 0 0 [[1]; [2]];
    EvItemDone [1] (Ok (VInt 5)); EvItemDone [2] (Ok (VInt 6)); EvAfter 0 0;
    EvStep [0] 1 (Ok (VTuple [VInt 5; VInt 6])); EvDone [0] (Ok (VTuple [VInt 5; VInt 6])); EvSched 0 0 None;
    EvStep [3] 0 (Ok VNone); EvStep [4] 0 (Ok VNone); EvBefore 0 1; EvFlush 0 1 [[5]];
    EvItemDone [5] (Ok (VInt 7)); EvAfter 0 1; EvStep [4] 1 (Ok (VInt 7)); EvDone [4] (Ok (VInt 7));
    EvGot [3] (Ok (VInt 7)); EvDone [3] (Ok (VInt 7)); EvSched 0 0 None]).
Proof. vm_compute. reflexivity. Qed.

(* the flush body raises before touching the second item: the after event still fires, and both items
   are completed exactly once (the second with the flush error) *)
Example c05_demo_raise :
  snd (run_case (mkP [(0, mkK PDefault (Some (1, 77)))] 1000 false []) 100%nat [c05_demo1]) =
  [EvStep [0] 0 (Ok VNone); EvBefore 0 0; EvFlush 0 0 [[1]; [2]];
   EvItemDone [1] (Ok (VInt 5)); EvItemDone [2] (Err 77); EvAfter 0 0;
   EvStep [0] 1 (Err 77); EvDone [0] (Err 77); EvSched 0 0 None].
Proof. vm_compute. reflexivity. Qed.

(* the hypothesis of the run-level theorems holds initially and the flush transition is reachable *)
Example c05_flush_step_reached :
  let P := mkP [] 1000 false [] in
  let h := fst (create [] (FTask c05_demo1) (st0 P)) in
  let s1 := snd (create [] (FTask c05_demo1) (st0 P)) in
  exists k, (k < 100)%nat /\ flushes (run P k (start h s1)) = true.
Proof. exists 11%nat. vm_compute. split; [repeat constructor|reflexivity]. Qed.
