(* C04 on the scheduler machine (tree programs): a batch is flushed only when every uncompleted task
   reachable from the awaited computation has started and is stuck - blocked, directly or through other
   stuck tasks, on batch items whose batch is still pending and known to the scheduler.

   Route: a ghost set S of futures "settled in this _execute pass".  Members of S are never on the task
   stack; a settled task has started, has an uncomputed dependency in S and all its dependencies are
   computed or in S; a settled item belongs to a pending scheduled batch.  A grey stack entry (its
   dependencies are scheduled) has every dependency computed, settled or above it on the stack.  When
   the pass ends the root is computed or settled.  (A settled item is an item that is still uncomputed;
   that a flush computes every item of the flushed batch is C05_flush_answers_every_item.) *)
From Asynq Require Import Machine Seq proofs.ProgProofs proofs.MachineFrame proofs.MachineC05 proofs.MachineC08
     proofs.MachineC01 proofs.MachineDFS.

From Coq Require Import Permutation.

Definition Sset := fid -> Prop.

Definition uncomputed (s : st) (d : fid) : Prop := computed d s = false.

(* what it means to be settled *)
Definition S_ok (S : Sset) (s : st) (d : fid) : Prop :=
  (exists tk, get d s = Some (mkFut None (KTask tk)) /\ (1 <= tk_iter tk)%Z /\
              (exists e, In e (tk_deps tk) /\ S e) /\
              (forall e, In e (tk_deps tk) -> computed e s = true \/ S e)) \/
  (exists kind idx key a, get d s = Some (mkFut None (KItem kind idx key a))).

(* the dependency facts about task entries that the pass relies on (tree structure) *)
Record deps_ok (root : fid) (s : st) : Prop := {
  dk_alloc : forall p o tk d, get p s = Some (mkFut o (KTask tk)) -> In d (tk_deps tk) -> get d s <> None;
  dk_disj : forall p p' tk tk' d, get p s = Some (mkFut None (KTask tk)) -> get p' s = Some (mkFut None (KTask tk')) ->
              In d (tk_deps tk) -> In d (tk_deps tk') -> computed d s = false -> p = p';
  dk_nodup : forall p tk, get p s = Some (mkFut None (KTask tk)) -> NoDup (filter (fun d => negb (computed d s)) (tk_deps tk));
  dk_root : forall p o tk, get p s = Some (mkFut o (KTask tk)) -> ~ In root (tk_deps tk);
  dk_iter : forall p tk, get p s = Some (mkFut None (KTask tk)) -> tk_deps tk <> [] -> (1 <= tk_iter tk)%Z;
  dk_iter0 : forall p o tk, get p s = Some (mkFut o (KTask tk)) -> (0 <= tk_iter tk)%Z
}.

Record pass_ok (root : fid) (S : Sset) (running : option fid) (s : st) : Prop := {
  pk_off : forall d, S d -> ~ In d (tasks s);
  pk_ok : forall d, S d -> S_ok S s d;
  pk_grey : forall above x below tk, tasks s = above ++ x :: below ->
              get x s = Some (mkFut None (KTask tk)) -> tk_ds tk = true -> running <> Some x ->
              forall e, In e (tk_deps tk) -> computed e s = true \/ S e \/ In e above;
  pk_white : forall u tk, get u s = Some (mkFut None (KTask tk)) -> tk_ds tk = false -> running <> Some u -> ~ S u ->
              forall e, In e (tk_deps tk) -> computed e s = false -> ~ S e /\ ~ In e (tasks s);
  pk_nodup : NoDup (tasks s);
  pk_alloc : forall d, In d (tasks s) -> get d s <> None;
  pk_bottom : tasks s = [] \/ exists above, tasks s = above ++ [root];
  pk_end : tasks s = [] -> computed root s = true \/ S root
}.

(* ------------------------------------------------------------------ ids created by a yield expression *)
Lemma create_id parent f s :
  fst (create parent f s) = [top_next s] /\ top_next (snd (create parent f s)) = (top_next s + 1)%Z.
Proof. unfold create, alloc. destruct f; cbn; auto. Qed.

Lemma futs_app a b : futs (a ++ b) = futs a ++ futs b.
Proof. unfold futs. apply flat_map_app. Qed.

Definition ids_in (lo hi : Z) (l : list fid) : Prop := forall h, In h l -> exists n, h = [n] /\ (lo <= n < hi)%Z.

Lemma NoDup_app_ranges lo mid hi a b :
  NoDup a -> NoDup b -> ids_in lo mid a -> ids_in mid hi b -> NoDup (a ++ b).
Proof.
  intros Na Nb Ia Ib. induction Na as [|x a Hx Na IH]; [exact Nb|]. simpl. constructor.
  - intros Hin. apply in_app_or in Hin as [Hin|Hin]; [contradiction|].
    destruct (Ia x (or_introl eq_refl)) as (n & -> & Hn). destruct (Ib _ Hin) as (m & E & Hm). inversion E. lia.
  - apply IH. intros h Hh. apply Ia. right. exact Hh.
Qed.

Lemma inst_ids parent (y : ystruct leaf) : forall s,
  (forall l, In l (leaves y) -> tree_leaf l) ->
  (top_next s <= top_next (snd (inst parent y s)))%Z /\
  ids_in (top_next s) (top_next (snd (inst parent y s))) (futs (leaves (fst (inst parent y s)))) /\
  NoDup (futs (leaves (fst (inst parent y s)))).
Proof.
  induction y as [| a | l IH | l IH | l IH] using ystruct_ind2; intros s Ht.
  - cbn. split; [lia|]. split; [intros h []|constructor].
  - destruct a as [f|h|].
    + cbn [inst]. pose proof (create_id parent f s) as [E1 E2]. destruct (create parent f s) as [h s1]. cbn [fst snd] in *.
      subst h. rewrite E2. cbn. split; [lia|]. split.
      * intros h [<-|[]]. exists (top_next s). split; [reflexivity|lia].
      * constructor; [intros []|constructor].
    + specialize (Ht (LOld h) (or_introl eq_refl)). inversion Ht.
    + cbn. split; [lia|]. split; [intros h []|constructor].
  - cbn [inst]. match goal with |- context [(?g l s)] => set (go := g) end.
    assert (HL : forall s0, (forall x, In x (flat_map leaves l) -> tree_leaf x) ->
              (top_next s0 <= top_next (snd (go l s0)))%Z /\
              ids_in (top_next s0) (top_next (snd (go l s0))) (futs (flat_map leaves (fst (go l s0)))) /\
              NoDup (futs (flat_map leaves (fst (go l s0))))).
    { clear s Ht. induction IH as [|x l Hx Hl IHl]; intros s0 Ht0.
      - cbn. split; [lia|]. split; [intros h []|constructor].
      - cbn [go]. cbn [flat_map] in Ht0.
        destruct (Hx s0) as (L1 & I1 & N1); [intros z Hz; apply Ht0, in_or_app; auto|].
        destruct (inst parent x s0) as [x' s1]. cbn [fst snd] in *.
        destruct (IHl s1) as (L2 & I2 & N2); [intros z Hz; apply Ht0, in_or_app; auto|].
        fold go. destruct (go l s1) as [l'' s2]. cbn [fst snd flat_map] in *. rewrite futs_app.
        split; [lia|]. split.
        + intros h Hh. apply in_app_or in Hh as [Hh|Hh].
          * destruct (I1 h Hh) as (n & -> & Hn). exists n. split; [reflexivity|lia].
          * destruct (I2 h Hh) as (n & -> & Hn). exists n. split; [reflexivity|lia].
        + apply (NoDup_app_ranges (top_next s0) (top_next s1) (top_next s2)); auto. }
    destruct (HL s) as (L & I & N); [rewrite <- leaves_tuple; exact Ht|].
    destruct (go l s) as [l' s1]. cbn [fst snd] in *. rewrite leaves_tuple. auto.
  - cbn [inst]. match goal with |- context [(?g l s)] => set (go := g) end.
    assert (HL : forall s0, (forall x, In x (flat_map leaves l) -> tree_leaf x) ->
              (top_next s0 <= top_next (snd (go l s0)))%Z /\
              ids_in (top_next s0) (top_next (snd (go l s0))) (futs (flat_map leaves (fst (go l s0)))) /\
              NoDup (futs (flat_map leaves (fst (go l s0))))).
    { clear s Ht. induction IH as [|x l Hx Hl IHl]; intros s0 Ht0.
      - cbn. split; [lia|]. split; [intros h []|constructor].
      - cbn [go]. cbn [flat_map] in Ht0.
        destruct (Hx s0) as (L1 & I1 & N1); [intros z Hz; apply Ht0, in_or_app; auto|].
        destruct (inst parent x s0) as [x' s1]. cbn [fst snd] in *.
        destruct (IHl s1) as (L2 & I2 & N2); [intros z Hz; apply Ht0, in_or_app; auto|].
        fold go. destruct (go l s1) as [l'' s2]. cbn [fst snd flat_map] in *. rewrite futs_app.
        split; [lia|]. split.
        + intros h Hh. apply in_app_or in Hh as [Hh|Hh].
          * destruct (I1 h Hh) as (n & -> & Hn). exists n. split; [reflexivity|lia].
          * destruct (I2 h Hh) as (n & -> & Hn). exists n. split; [reflexivity|lia].
        + apply (NoDup_app_ranges (top_next s0) (top_next s1) (top_next s2)); auto. }
    destruct (HL s) as (L & I & N); [rewrite <- leaves_ylist; exact Ht|].
    destruct (go l s) as [l' s1]. cbn [fst snd] in *. rewrite leaves_ylist. auto.
  - cbn [inst]. match goal with |- context [(?g l s)] => set (go := g) end.
    assert (HL : forall s0, (forall x, In x (flat_map (fun kv => leaves (snd kv)) l) -> tree_leaf x) ->
              (top_next s0 <= top_next (snd (go l s0)))%Z /\
              ids_in (top_next s0) (top_next (snd (go l s0))) (futs (flat_map (fun kv => leaves (snd kv)) (fst (go l s0)))) /\
              NoDup (futs (flat_map (fun kv => leaves (snd kv)) (fst (go l s0))))).
    { clear s Ht. induction IH as [|[k x] l Hx Hl IHl]; intros s0 Ht0.
      - cbn. split; [lia|]. split; [intros h []|constructor].
      - cbn [go]. cbn [flat_map snd] in Ht0. cbn [snd] in Hx.
        destruct (Hx s0) as (L1 & I1 & N1); [intros z Hz; apply Ht0, in_or_app; auto|].
        destruct (inst parent x s0) as [x' s1]. cbn [fst snd] in *.
        destruct (IHl s1) as (L2 & I2 & N2); [intros z Hz; apply Ht0, in_or_app; auto|].
        fold go. destruct (go l s1) as [l'' s2]. cbn [fst snd flat_map] in *. rewrite futs_app.
        split; [lia|]. split.
        + intros h Hh. apply in_app_or in Hh as [Hh|Hh].
          * destruct (I1 h Hh) as (n & -> & Hn). exists n. split; [reflexivity|lia].
          * destruct (I2 h Hh) as (n & -> & Hn). exists n. split; [reflexivity|lia].
        + apply (NoDup_app_ranges (top_next s0) (top_next s1) (top_next s2)); auto. }
    destruct (HL s) as (L & I & N); [rewrite <- leaves_ydict; exact Ht|].
    destruct (go l s) as [l' s1]. cbn [fst snd] in *. rewrite leaves_ydict. auto.
Qed.

(* ------------------------------------------------------------------ Layer A: the dependency facts are preserved *)
Definition deps_step (s s' : st) : Prop :=
  (forall d, get d s <> None -> get d s' <> None) /\
  (forall d, computed d s = true -> computed d s' = true) /\
  (forall p o' tk', get p s' = Some (mkFut o' (KTask tk')) ->
     (get p s = None /\ tk_deps tk' = [] /\ (0 <= tk_iter tk')%Z) \/
     (exists o tk, get p s = Some (mkFut o (KTask tk)) /\ (o' = None -> o = None) /\
        (tk_deps tk' = tk_deps tk \/ tk_deps tk' = []) /\ (tk_iter tk <= tk_iter tk')%Z)).

Lemma deps_step_refl s : deps_step s s.
Proof.
  split; [auto|]. split; [auto|]. intros p o' tk' Hg. right. exists o', tk'. repeat split; auto. lia.
Qed.

Lemma deps_step_trans a b c : deps_step a b -> deps_step b c -> deps_step a c.
Proof.
  intros (A1 & A2 & A3) (B1 & B2 & B3). split; [auto|]. split; [auto|].
  intros p o' tk' Hg. destruct (B3 p o' tk' Hg) as [(N & D & I)|(o & tk & Hb & Ho & Hd & Hi)].
  - left. split; [|auto]. destruct (get p a) eqn:E; [|reflexivity]. exfalso. apply (A1 p); [rewrite E; discriminate|exact N].
  - destruct (A3 p o tk Hb) as [(N & D & I)|(o0 & tk0 & Ha & Ho0 & Hd0 & Hi0)].
    + left. split; [exact N|]. split; [destruct Hd as [Hd|Hd]; congruence|lia].
    + right. exists o0, tk0. split; [exact Ha|]. split; [auto|]. split; [|lia].
      destruct Hd as [Hd|Hd]; [rewrite Hd; exact Hd0|right; exact Hd].
Qed.

Lemma deps_step_view s s' : heap s' = heap s -> deps_step s s'.
Proof.
  intros Hh. assert (G : forall h, get h s' = get h s) by (intros h; unfold get; rewrite Hh; reflexivity).
  split; [intros d; rewrite G; auto|]. split; [intros d; unfold computed; rewrite G; auto|].
  intros p o' tk' Hg. rewrite G in Hg. right. exists o', tk'. repeat split; auto. lia.
Qed.

(* the entry of x is replaced by a task entry with the same or emptied dependencies *)
Lemma deps_step_upd s s' x o tk o' tk' :
  get x s = Some (mkFut o (KTask tk)) -> upd_entry s s' x (mkFut o' (KTask tk')) ->
  (o' = None -> o = None) -> (tk_deps tk' = tk_deps tk \/ tk_deps tk' = []) -> (tk_iter tk <= tk_iter tk')%Z ->
  deps_step s s'.
Proof.
  intros Hg U Ho Hd Hi. pose proof (upd_entry_dom _ _ _ _ _ Hg U) as Dom. destruct U as (A & B & _).
  split; [intros d Hd0; apply Dom; exact Hd0|]. split.
  - intros d Hc. unfold computed in *. destruct (fid_eqb d x) eqn:E.
    + apply fid_eqb_eq in E. subst d. rewrite A. rewrite Hg in Hc. cbn in *. destruct o; [|discriminate].
      destruct o'; [reflexivity|]. specialize (Ho eq_refl). discriminate.
    + assert (d <> x) by (intros ->; rewrite fid_eqb_refl in E; discriminate). rewrite B by assumption. exact Hc.
  - intros p o2 tk2 Hg2. right. destruct (fid_eqb p x) eqn:E.
    + apply fid_eqb_eq in E. subst p. rewrite A in Hg2. inversion Hg2; subst. exists o, tk. auto.
    + assert (p <> x) by (intros ->; rewrite fid_eqb_refl in E; discriminate). rewrite B in Hg2 by assumption.
      exists o2, tk2. repeat split; auto. lia.
Qed.

(* an entry that is not a task changes (an item or lazy future gets its outcome) *)
Lemma deps_step_nontask s s' x f f' :
  get x s = Some f -> (forall tk, f_kind f <> KTask tk) -> (forall tk, f_kind f' <> KTask tk) ->
  (f_out f <> None -> f_out f' <> None) -> upd_entry s s' x f' -> deps_step s s'.
Proof.
  intros Hg Hk Hk' Ho U. pose proof (upd_entry_dom _ _ _ _ _ Hg U) as Dom. destruct U as (A & B & _).
  split; [intros d Hd0; apply Dom; exact Hd0|]. split.
  - intros d Hc. unfold computed in *. destruct (fid_eqb d x) eqn:E.
    + apply fid_eqb_eq in E. subst d. rewrite A. rewrite Hg in Hc. destruct (f_out f) eqn:E1; [|discriminate].
      destruct (f_out f') eqn:E2; [reflexivity|]. exfalso. apply Ho; [discriminate|reflexivity].
    + assert (d <> x) by (intros ->; rewrite fid_eqb_refl in E; discriminate). rewrite B by assumption. exact Hc.
  - intros p o2 tk2 Hg2. right. destruct (fid_eqb p x) eqn:E.
    + apply fid_eqb_eq in E. subst p. rewrite A in Hg2. inversion Hg2; subst. destruct (Hk' tk2 eq_refl).
    + assert (p <> x) by (intros ->; rewrite fid_eqb_refl in E; discriminate). rewrite B in Hg2 by assumption.
      exists o2, tk2. repeat split; auto. lia.
Qed.

Lemma NoDup_filter_weaken {A} (f g : A -> bool) (l : list A) :
  (forall x, g x = true -> f x = true) -> NoDup (filter f l) -> NoDup (filter g l).
Proof.
  intros H. induction l as [|x l IH]; [auto|]. cbn. destruct (g x) eqn:Eg.
  - rewrite (H x Eg). intros N. inversion N; subst. constructor; [|auto].
    intros Hin. apply filter_In in Hin as [Hin Hgx]. apply H2. apply filter_In. split; [exact Hin|apply H; exact Hgx].
  - destruct (f x); intros N; [inversion N; auto|auto].
Qed.

Lemma deps_ok_step root s s' : get root s <> None -> deps_ok root s -> deps_step s s' -> deps_ok root s'.
Proof.
  intros Hroot [K1 K2 K3 K4 K5 K6] (D1 & D2 & D3).
  assert (Hunc : forall d, computed d s' = false -> computed d s = false).
  { intros d H. destruct (computed d s) eqn:E; [|reflexivity]. rewrite (D2 d E) in H. discriminate. }
  constructor.
  - intros p o tk d Hg Hin. destruct (D3 p o tk Hg) as [(_ & E & _)|(o0 & tk0 & Hg0 & _ & Hd & _)]; [rewrite E in Hin; destruct Hin|].
    destruct Hd as [Hd|Hd]; [|rewrite Hd in Hin; destruct Hin]. rewrite Hd in Hin. apply D1. apply (K1 p o0 tk0 d Hg0 Hin).
  - intros p p' tk tk' d Hg Hg' Hin Hin' Hc.
    destruct (D3 p None tk Hg) as [(_ & E & _)|(o0 & tk0 & Hg0 & Ho0 & Hd & _)]; [rewrite E in Hin; destruct Hin|].
    destruct (D3 p' None tk' Hg') as [(_ & E & _)|(o1 & tk1 & Hg1 & Ho1 & Hd1 & _)]; [rewrite E in Hin'; destruct Hin'|].
    destruct Hd as [Hd|Hd]; [|rewrite Hd in Hin; destruct Hin]. destruct Hd1 as [Hd1|Hd1]; [|rewrite Hd1 in Hin'; destruct Hin'].
    rewrite Hd in Hin. rewrite Hd1 in Hin'. rewrite (Ho0 eq_refl) in Hg0. rewrite (Ho1 eq_refl) in Hg1.
    apply (K2 p p' tk0 tk1 d Hg0 Hg1 Hin Hin' (Hunc d Hc)).
  - intros p tk Hg. destruct (D3 p None tk Hg) as [(_ & E & _)|(o0 & tk0 & Hg0 & Ho0 & Hd & _)]; [rewrite E; constructor|].
    destruct Hd as [Hd|Hd]; [|rewrite Hd; constructor]. rewrite Hd. rewrite (Ho0 eq_refl) in Hg0.
    apply (NoDup_filter_weaken (fun d => negb (computed d s))); [|apply (K3 p tk0 Hg0)].
    intros x Hx. apply negb_true_iff in Hx. apply negb_true_iff. apply Hunc. exact Hx.
  - intros p o tk Hg Hin. destruct (D3 p o tk Hg) as [(_ & E & _)|(o0 & tk0 & Hg0 & _ & Hd & _)]; [rewrite E in Hin; destruct Hin|].
    destruct Hd as [Hd|Hd]; [|rewrite Hd in Hin; destruct Hin]. rewrite Hd in Hin. apply (K4 p o0 tk0 Hg0 Hin).
  - intros p tk Hg Hne. destruct (D3 p None tk Hg) as [(_ & E & _)|(o0 & tk0 & Hg0 & Ho0 & Hd & Hi)]; [congruence|].
    destruct Hd as [Hd|Hd]; [|congruence]. rewrite (Ho0 eq_refl) in Hg0. rewrite Hd in Hne. pose proof (K5 p tk0 Hg0 Hne). lia.
  - intros p o tk Hg. destruct (D3 p o tk Hg) as [(_ & _ & I)|(o0 & tk0 & Hg0 & _ & _ & Hi)]; [exact I|].
    pose proof (K6 p o0 tk0 Hg0). lia.
Qed.

(* creating futures only adds entries; a new task entry has no dependencies yet *)
Lemma deps_step_create parent f s : get [top_next s] s = None -> deps_step s (snd (create parent f s)) /\
  (forall h, get h s <> None -> get h (snd (create parent f s)) = get h s).
Proof.
  intros Hfresh. unfold create, alloc. cbn zeta. set (h := [top_next s]) in *. set (s0 := with_top_next s (top_next s + 1)).
  assert (Hgen : forall e s1, (forall x, x <> h -> get x s1 = get x s) -> get h s1 = Some e ->
            (forall o tk, e = mkFut o (KTask tk) -> tk_deps tk = [] /\ (0 <= tk_iter tk)%Z) ->
            deps_step s s1 /\ (forall x, get x s <> None -> get x s1 = get x s)).
  { intros e s1 Hoth Hnew He.
    assert (Hold : forall x, get x s <> None -> get x s1 = get x s).
    { intros x Hx. apply Hoth. intros ->. congruence. }
    split; [|exact Hold]. split; [intros d Hd; rewrite Hold; auto|]. split.
    - intros d Hc. unfold computed in *. destruct (get d s) eqn:E; [|discriminate]. rewrite Hold; [rewrite E; exact Hc|rewrite E; discriminate].
    - intros p o' tk' Hg. destruct (fid_eqb p h) eqn:E.
      + apply fid_eqb_eq in E. subst p. left. rewrite Hnew in Hg. inversion Hg; subst e. destruct (He o' tk' eq_refl). auto.
      + assert (p <> h) by (intros ->; rewrite fid_eqb_refl in E; discriminate). rewrite Hoth in Hg by assumption.
        right. exists o', tk'. repeat split; auto. lia. }
  destruct f as [q|kind key a|v|e|o]; cbn [snd].
  - apply (Hgen (mkFut None (KTask (fresh_task q)))).
    + intros x N. rewrite get_put_other by exact N. reflexivity.
    + apply get_put_same.
    + intros o tk E. inversion E. cbn. split; [reflexivity|lia].
  - apply (Hgen (mkFut None (KItem kind (cur_idx kind s0) key a))).
    + intros x N. change (get x (put_batch ?k ?b ?z)) with (get x z). rewrite get_put_other by exact N. reflexivity.
    + change (get h (put_batch ?k ?b ?z)) with (get h z). apply get_put_same.
    + intros o tk E. discriminate.
  - apply (Hgen (mkFut (Some (Ok v)) KOther)).
    + intros x N. rewrite get_put_other by exact N. reflexivity.
    + apply get_put_same.
    + intros o tk E. discriminate.
  - apply (Hgen (mkFut (Some (Err e)) KOther)).
    + intros x N. rewrite get_put_other by exact N. reflexivity.
    + apply get_put_same.
    + intros o tk E. discriminate.
  - apply (Hgen (mkFut None (KLazy o))).
    + intros x N. rewrite get_put_other by exact N. reflexivity.
    + apply get_put_same.
    + intros o0 tk E. discriminate.
Qed.

Definition grow (s s' : st) : Prop :=
  deps_step s s' /\ (forall h, get h s <> None -> get h s' = get h s).

Lemma grow_refl s : grow s s. Proof. split; [apply deps_step_refl|auto]. Qed.
Lemma grow_trans a b c : grow a b -> grow b c -> grow a c.
Proof.
  intros (A1 & A2) (B1 & B2). split; [eapply deps_step_trans; eauto|].
  intros h Hh. rewrite B2, A2; auto. rewrite A2; auto.
Qed.

Lemma grow_inst spec r parent (y : ystruct leaf) : forall s, SInv spec r s -> (forall l, In l (leaves y) -> tree_leaf l) ->
  grow s (snd (inst parent y s)).
Proof.
  intros s HS Ht. revert spec s HS Ht.
  induction y as [| a | l IH | l IH | l IH] using ystruct_ind2; intros spec s HS Ht.
  - apply grow_refl.
  - destruct a as [f|h|]; cbn [inst]; try apply grow_refl.
    pose proof (deps_step_create parent f s (fresh_id _ _ _ HS)) as H. destruct (create parent f s). exact H.
  - cbn [inst]. match goal with |- context [(?g l s)] => set (go := g) end.
    assert (HL : forall spec0 s0, SInv spec0 r s0 -> (forall x, In x (flat_map leaves l) -> tree_leaf x) -> grow s0 (snd (go l s0))).
    { clear spec s HS Ht. induction IH as [|x l Hx Hl IHl]; intros spec0 s0 HS0 Ht0; [apply grow_refl|].
      cbn [go]. cbn [flat_map] in Ht0.
      assert (Htx : forall z, In z (leaves x) -> tree_leaf z) by (intros z Hz; apply Ht0, in_or_app; auto).
      pose proof (Hx spec0 s0 HS0 Htx) as G1.
      destruct (SInv_inst r parent x spec0 s0 HS0 Htx) as (spec1 & (_ & HS1 & _) & _).
      destruct (inst parent x s0) as [x' s1]. cbn [fst snd] in *.
      assert (G2 : grow s1 (snd (go l s1))) by (apply (IHl spec1 s1 HS1); intros z Hz; apply Ht0, in_or_app; auto).
      fold go. destruct (go l s1) as [l'' s2]. cbn [snd] in *. eapply grow_trans; eauto. }
    specialize (HL spec s HS). destruct (go l s) as [l' s1]. cbn [snd] in *. apply HL. rewrite <- leaves_tuple. exact Ht.
  - cbn [inst]. match goal with |- context [(?g l s)] => set (go := g) end.
    assert (HL : forall spec0 s0, SInv spec0 r s0 -> (forall x, In x (flat_map leaves l) -> tree_leaf x) -> grow s0 (snd (go l s0))).
    { clear spec s HS Ht. induction IH as [|x l Hx Hl IHl]; intros spec0 s0 HS0 Ht0; [apply grow_refl|].
      cbn [go]. cbn [flat_map] in Ht0.
      assert (Htx : forall z, In z (leaves x) -> tree_leaf z) by (intros z Hz; apply Ht0, in_or_app; auto).
      pose proof (Hx spec0 s0 HS0 Htx) as G1.
      destruct (SInv_inst r parent x spec0 s0 HS0 Htx) as (spec1 & (_ & HS1 & _) & _).
      destruct (inst parent x s0) as [x' s1]. cbn [fst snd] in *.
      assert (G2 : grow s1 (snd (go l s1))) by (apply (IHl spec1 s1 HS1); intros z Hz; apply Ht0, in_or_app; auto).
      fold go. destruct (go l s1) as [l'' s2]. cbn [snd] in *. eapply grow_trans; eauto. }
    specialize (HL spec s HS). destruct (go l s) as [l' s1]. cbn [snd] in *. apply HL. rewrite <- leaves_ylist. exact Ht.
  - cbn [inst]. match goal with |- context [(?g l s)] => set (go := g) end.
    assert (HL : forall spec0 s0, SInv spec0 r s0 -> (forall x, In x (flat_map (fun kv => leaves (snd kv)) l) -> tree_leaf x) -> grow s0 (snd (go l s0))).
    { clear spec s HS Ht. induction IH as [|[k x] l Hx Hl IHl]; intros spec0 s0 HS0 Ht0; [apply grow_refl|].
      cbn [go]. cbn [flat_map snd] in Ht0. cbn [snd] in Hx.
      assert (Htx : forall z, In z (leaves x) -> tree_leaf z) by (intros z Hz; apply Ht0, in_or_app; auto).
      pose proof (Hx spec0 s0 HS0 Htx) as G1.
      destruct (SInv_inst r parent x spec0 s0 HS0 Htx) as (spec1 & (_ & HS1 & _) & _).
      destruct (inst parent x s0) as [x' s1]. cbn [fst snd] in *.
      assert (G2 : grow s1 (snd (go l s1))) by (apply (IHl spec1 s1 HS1); intros z Hz; apply Ht0, in_or_app; auto).
      fold go. destruct (go l s1) as [l'' s2]. cbn [snd] in *. eapply grow_trans; eauto. }
    specialize (HL spec s HS). destruct (go l s) as [l' s1]. cbn [snd] in *. apply HL. rewrite <- leaves_ydict. exact Ht.
Qed.

(* ------------------------------------------------------------------ Layer B: the pass invariant *)
(* a transition made while task t runs: only t's entry changes, new entries may appear, stack untouched *)
Definition frame_t (t : fid) (s s' : st) : Prop :=
  tasks s' = tasks s /\ deps_step s s' /\ (forall h, h <> t -> get h s <> None -> get h s' = get h s).

Lemma frame_t_refl t s : frame_t t s s.
Proof. split; [reflexivity|]. split; [apply deps_step_refl|auto]. Qed.

Lemma frame_t_trans t a b c : frame_t t a b -> frame_t t b c -> frame_t t a c.
Proof.
  intros (A1 & A2 & A3) (B1 & B2 & B3). split; [congruence|]. split; [eapply deps_step_trans; eauto|].
  intros h N Hh. rewrite B3, A3; auto. rewrite A3; auto.
Qed.

Lemma unc_mono s s' : deps_step s s' -> forall d, computed d s' = false -> computed d s = false.
Proof. intros (_ & M & _) d H. destruct (computed d s) eqn:E; [rewrite (M d E) in H; discriminate|reflexivity]. Qed.

Lemma S_ok_frame S s s' d :
  S_ok S s d -> get d s' = get d s -> (forall e, computed e s = true -> computed e s' = true) -> S_ok S s' d.
Proof.
  intros [(tk & Hg & Hi & He & Ha)|(kind & idx & key & a & Hg)] E M.
  - left. exists tk. rewrite E. repeat split; auto. intros e Hin. destruct (Ha e Hin); auto.
  - right. exists kind, idx, key, a. rewrite E. exact Hg.
Qed.

Lemma S_ok_alloc S s d : S_ok S s d -> get d s <> None.
Proof. intros [(tk & Hg & _)|(kind & idx & key & a & Hg)]; rewrite Hg; discriminate. Qed.

(* what the pass invariant needs of a transition made while t runs (t's own dependencies may change) *)
Definition frame_w (t : fid) (s s' : st) : Prop :=
  tasks s' = tasks s /\
  (forall d, get d s <> None -> get d s' <> None) /\
  (forall d, computed d s = true -> computed d s' = true) /\
  (forall h, h <> t -> get h s <> None -> get h s' = get h s) /\
  (forall u tk, u <> t -> get u s = None -> get u s' = Some (mkFut None (KTask tk)) -> tk_deps tk = []).

Lemma frame_t_w t s s' : frame_t t s s' -> frame_w t s s'.
Proof.
  intros (Ft & (Dom & Mono & New) & Fo). split; [exact Ft|]. split; [exact Dom|]. split; [exact Mono|]. split; [exact Fo|].
  intros u tk _ Hn Hg. destruct (New u None tk Hg) as [(_ & E & _)|(o & tk0 & Hg0 & _)]; [exact E|congruence].
Qed.

Lemma pass_ok_frame_w root S t s s' :
  pass_ok root S (Some t) s -> In t (tasks s) -> frame_w t s s' -> pass_ok root S (Some t) s'.
Proof.
  intros [K1 K2 K3 K4 K5 K6 K7 K8] Hin (Ft & Dom & Mono & Fo & New).
  assert (HSt : ~ S t) by (intros HS; apply (K1 t HS Hin)).
  constructor.
  - intros d Hd. rewrite Ft. apply K1. exact Hd.
  - intros d Hd. apply (S_ok_frame S s); [apply K2; exact Hd| |exact Mono].
    apply Fo; [intros ->; contradiction|apply (S_ok_alloc S s); apply K2; exact Hd].
  - intros above x below tk Hst Hg Hds Hr e He. rewrite Ft in Hst.
    assert (Nx : x <> t) by congruence.
    assert (Ax : get x s <> None) by (apply K6; rewrite Hst; apply in_or_app; right; left; reflexivity).
    rewrite (Fo x Nx Ax) in Hg. destruct (K3 above x below tk Hst Hg Hds Hr e He) as [H|[H|H]]; auto.
  - intros u tk Hg Hds Hr HSu e He Hc. rewrite Ft.
    assert (Nu : u <> t) by congruence.
    destruct (get u s) as [fu|] eqn:Eu.
    + rewrite (Fo u Nu) in Hg by (rewrite Eu; discriminate). rewrite Eu in Hg. inversion Hg; subst fu.
      apply (K4 u tk Eu Hds Hr HSu e He). destruct (computed e s) eqn:E; [rewrite (Mono e E) in Hc; discriminate|reflexivity].
    + rewrite (New u tk Nu Eu Hg) in He. destruct He.
  - rewrite Ft. exact K5.
  - intros d Hd. rewrite Ft in Hd. apply Dom. apply K6. exact Hd.
  - rewrite Ft. exact K7.
  - rewrite Ft. intros E. rewrite E in Hin. destruct Hin.
Qed.

Lemma pass_ok_frame root S t s s' :
  pass_ok root S (Some t) s -> In t (tasks s) -> frame_t t s s' -> pass_ok root S (Some t) s'.
Proof. intros H Hin F. apply (pass_ok_frame_w root S t s s' H Hin). apply frame_t_w. exact F. Qed.

(* the standard ways a running-mode transition changes the state *)
Lemma frame_t_view t s s' : heap s' = heap s -> tasks s' = tasks s -> frame_t t s s'.
Proof.
  intros Hh Ht. split; [exact Ht|]. split; [apply deps_step_view; exact Hh|].
  intros h _ _. unfold get. rewrite Hh. reflexivity.
Qed.

Lemma frame_t_upd t s s' o tk o' tk' :
  get t s = Some (mkFut o (KTask tk)) -> upd_entry s s' t (mkFut o' (KTask tk')) -> tasks s' = tasks s ->
  (o' = None -> o = None) -> (tk_deps tk' = tk_deps tk \/ tk_deps tk' = []) -> (tk_iter tk <= tk_iter tk')%Z ->
  frame_t t s s'.
Proof.
  intros Hg U Ht Ho Hd Hi. split; [exact Ht|]. split; [apply (deps_step_upd s s' t o tk o' tk'); auto|].
  intros h N _. destruct U as (_ & B & _). apply B. exact N.
Qed.

Lemma frame_t_grow t s s' : grow s s' -> tasks s' = tasks s -> frame_t t s s'.
Proof. intros (G1 & G2) Ht. split; [exact Ht|]. split; [exact G1|]. intros h _ Hh. apply G2. exact Hh. Qed.

(* list facts about the task stack *)
Lemma split_cons {A} (x : A) ts above y below :
  x :: ts = above ++ y :: below ->
  (above = [] /\ y = x /\ below = ts) \/ (exists above', above = x :: above' /\ ts = above' ++ y :: below).
Proof.
  destruct above as [|a above']; cbn; intros H; inversion H; subst; [left; auto|right; eauto].
Qed.

Lemma split_app {A} (Pf old above : list A) y below :
  Pf ++ old = above ++ y :: below ->
  (exists above', above = Pf ++ above' /\ old = above' ++ y :: below) \/
  (exists p1 p2, Pf = p1 ++ y :: p2 /\ above = p1 /\ below = p2 ++ old).
Proof.
  revert above. induction Pf as [|a Pf IH]; intros above H; cbn in *.
  - left. exists above. auto.
  - destruct above as [|b above']; cbn in H; inversion H; subst.
    + right. exists [], Pf. auto.
    + destruct (IH above' H2) as [(a' & -> & E)|(p1 & p2 & E1 & E2 & E3)].
      * left. exists a'. auto.
      * right. exists (b :: p1), p2. subst. auto.
Qed.

Lemma NoDup_app_intro {A} (a b : list A) : NoDup a -> NoDup b -> (forall x, In x a -> ~ In x b) -> NoDup (a ++ b).
Proof.
  intros Na Nb H. induction Na as [|x a Hx Na IH]; [exact Nb|]. cbn. constructor.
  - intros Hin. apply in_app_or in Hin as [Hin|Hin]; [contradiction|]. apply (H x (or_introl eq_refl) Hin).
  - apply IH. intros y Hy. apply H. right. exact Hy.
Qed.

Lemma S_ok_mono (S S' : Sset) s s' d :
  S_ok S s d -> (forall e, S e -> S' e) -> get d s' = get d s -> (forall e, computed e s = true -> computed e s' = true) ->
  S_ok S' s' d.
Proof.
  intros [(tk & Hg & Hi & (e0 & He0 & Hs0) & Ha)|(kind & idx & key & a & Hg)] HS E M.
  - left. exists tk. rewrite E. split; [exact Hg|]. split; [exact Hi|]. split; [exists e0; auto|].
    intros e Hin. destruct (Ha e Hin); auto.
  - right. exists kind, idx, key, a. rewrite E. exact Hg.
Qed.

(* popping the top entry x once it is computed (S unchanged) or settled (S := S + x) *)
Definition S_add (S : Sset) (x : fid) : Sset := fun d => S d \/ d = x.

Lemma pass_pop root (S S' : Sset) s s' x ts :
  pass_ok root S None s -> tasks s = x :: ts -> tasks s' = ts ->
  (forall h, h <> x -> get h s' = get h s) -> (forall h, get h s <> None -> get h s' <> None) ->
  (forall e, computed e s = true -> computed e s' = true) ->
  ((S' = S /\ computed x s' = true) \/ (S' = S_add S x /\ S_ok S' s' x)) ->
  pass_ok root S' None s'.
Proof.
  intros [K1 K2 K3 K4 K5 K6 K7 K8] Hst Hst' Hoth Hdom Hmono Hx.
  assert (Nx : ~ In x ts) by (rewrite Hst in K5; inversion K5; assumption).
  assert (Hunc : forall e, computed e s' = false -> computed e s = false).
  { intros e H. destruct (computed e s) eqn:E; [rewrite (Hmono e E) in H; discriminate|reflexivity]. }
  assert (HS : forall d, S d -> S' d) by (intros d Hd; destruct Hx as [[-> _]|[-> _]]; [exact Hd|left; exact Hd]).
  assert (HS' : forall d, S' d -> S d \/ d = x) by (intros d Hd; destruct Hx as [[-> _]|[-> _]]; [left; exact Hd|exact Hd]).
  assert (HSx : ~ S x) by (intros H; apply (K1 x H); rewrite Hst; left; reflexivity).
  constructor.
  - intros d Hd. rewrite Hst'. destruct (HS' d Hd) as [H| ->]; [|exact Nx]. intros Hin. apply (K1 d H). rewrite Hst. right. exact Hin.
  - intros d Hd. destruct (HS' d Hd) as [H|E].
    + apply (S_ok_mono S S' s s'); auto. apply Hoth. intros ->. contradiction.
    + subst d. destruct Hx as [[-> _]|[_ Hok]]; [contradiction|exact Hok].
  - intros above y below tk Hst2 Hg Hds _ e He. rewrite Hst' in Hst2.
    assert (Ny : y <> x) by (intros ->; apply Nx; rewrite Hst2; apply in_or_app; right; left; reflexivity).
    rewrite (Hoth y Ny) in Hg.
    assert (Hold : tasks s = (x :: above) ++ y :: below) by (rewrite Hst, Hst2; reflexivity).
    destruct (K3 (x :: above) y below tk Hold Hg Hds ltac:(discriminate) e He) as [H|[H|[H|H]]]; auto.
    subst e. destruct Hx as [[_ Hc]|[-> _]]; [left; exact Hc|right; left; right; reflexivity].
  - intros u tk Hg Hds _ HSu e He Hc. rewrite Hst'.
    destruct (fid_eqb u x) eqn:E.
    + apply fid_eqb_eq in E. subst u. exfalso. destruct Hx as [[_ Hcx]|[-> _]].
      * unfold computed in Hcx. rewrite Hg in Hcx. discriminate.
      * apply HSu. right. reflexivity.
    + assert (Nu : u <> x) by (intros ->; rewrite fid_eqb_refl in E; discriminate). rewrite (Hoth u Nu) in Hg.
      destruct (K4 u tk Hg Hds ltac:(discriminate) (fun H => HSu (HS u H)) e He (Hunc e Hc)) as [H1 H2].
      split.
      * intros H. destruct (HS' e H) as [H3| ->]; [contradiction|]. apply H2. rewrite Hst. left. reflexivity.
      * intros H. apply H2. rewrite Hst. right. exact H.
  - rewrite Hst'. rewrite Hst in K5. inversion K5. assumption.
  - intros d Hd. rewrite Hst' in Hd. apply Hdom. apply K6. rewrite Hst. right. exact Hd.
  - rewrite Hst'. rewrite Hst in K7. destruct K7 as [K7|(above & K7)]; [discriminate|].
    destruct above as [|a above']; cbn in K7; inversion K7; subst; [left; reflexivity|right; exists above'; reflexivity].
  - rewrite Hst'. intros ->. rewrite Hst in K7. destruct K7 as [K7|(above & K7)]; [discriminate|].
    destruct above as [|a above']; cbn in K7; inversion K7; subst.
    + destruct Hx as [[_ Hc]|[-> _]]; [left; exact Hc|right; right; reflexivity].
    + destruct above'; discriminate.
Qed.

(* first visit of a white blocked task x: it becomes grey and its uncomputed dependencies are pushed *)
Lemma pass_push root (S : Sset) s s' x ts tk tk' :
  pass_ok root S None s -> flags_ok s -> deps_ok root s ->
  tasks s = x :: ts -> get x s = Some (mkFut None (KTask tk)) -> tk_ds tk = false ->
  get x s' = Some (mkFut None (KTask tk')) -> tk_deps tk' = tk_deps tk -> tk_ds tk' = true ->
  (forall h, h <> x -> get h s' = get h s) -> (forall e, computed e s' = computed e s) ->
  tasks s' = rev (filter (fun d => negb (computed d s)) (tk_deps tk)) ++ x :: ts ->
  pass_ok root S None s'.
Proof.
  intros [K1 K2 K3 K4 K5 K6 K7 K8] HF [D1 D2 D3 D4 D5 D6] Hst Hg Hds Hg' Hdeps Hds' Hoth Hcomp Hst'.
  set (todo := filter (fun d => negb (computed d s)) (tk_deps tk)) in *.
  assert (HSx : ~ S x) by (intros H; apply (K1 x H); rewrite Hst; left; reflexivity).
  assert (Htodo : forall e, In e todo -> In e (tk_deps tk) /\ computed e s = false).
  { intros e He. apply filter_In in He as [H1 H2]. apply negb_true_iff in H2. auto. }
  assert (Hfree : forall e, In e todo -> ~ S e /\ ~ In e (tasks s)).
  { intros e He. destruct (Htodo e He) as [H1 H2]. apply (K4 x tk Hg Hds ltac:(discriminate) HSx e H1 H2). }
  assert (Hdom : forall h, get h s <> None -> get h s' <> None).
  { intros h Hh. destruct (fid_eqb h x) eqn:E; [apply fid_eqb_eq in E; subst h; rewrite Hg'; discriminate|].
    assert (h <> x) by (intros ->; rewrite fid_eqb_refl in E; discriminate). rewrite Hoth by assumption. exact Hh. }
  constructor.
  - intros d Hd. rewrite Hst'. intros Hin. apply in_app_or in Hin as [Hin|Hin].
    + apply in_rev in Hin. destruct (Hfree d Hin) as [H _]. contradiction.
    + apply (K1 d Hd). rewrite Hst. exact Hin.
  - intros d Hd. apply (S_ok_frame S s); [apply K2; exact Hd| |intros e; rewrite Hcomp; auto].
    apply Hoth. intros ->. contradiction.
  - intros above y below tky Hsplit Hgy Hdsy _ e He. rewrite Hst' in Hsplit.
    destruct (split_app _ _ _ _ _ Hsplit) as [(above' & -> & Hold)|(p1 & p2 & Hp & -> & ->)].
    + destruct (split_cons _ _ _ _ _ Hold) as [(-> & -> & ->)|(a'' & -> & Hts)].
      * rewrite Hg' in Hgy. inversion Hgy; subst tky. rewrite Hdeps in He. rewrite Hcomp.
        destruct (computed e s) eqn:Ec; [left; reflexivity|]. right. right. rewrite app_nil_r. apply -> in_rev.
        apply filter_In. split; [exact He|]. rewrite Ec. reflexivity.
      * assert (Ny : y <> x).
        { intros ->. rewrite Hst in K5. inversion K5. apply H1. rewrite Hts. apply in_or_app. right. left. reflexivity. }
        rewrite (Hoth y Ny) in Hgy.
        assert (Hold2 : tasks s = (x :: a'') ++ y :: below) by (rewrite Hst, Hts; reflexivity).
        destruct (K3 (x :: a'') y below tky Hold2 Hgy Hdsy ltac:(discriminate) e He) as [H|[H|H]].
        -- left. rewrite Hcomp. exact H.
        -- right. left. exact H.
        -- right. right. apply in_or_app. right. exact H.
    + (* y is one of the pushed dependencies: it cannot be grey *)
      assert (Hy : In y todo) by (apply in_rev; rewrite Hp; apply in_or_app; right; left; reflexivity).
      destruct (Hfree y Hy) as [_ Hny].
      assert (Ny : y <> x) by (intros ->; apply Hny; rewrite Hst; left; reflexivity).
      rewrite (Hoth y Ny) in Hgy. destruct (HF y tky Hgy) as [Hfl _]. exfalso. apply Hny. apply Hfl. left. exact Hdsy.
  - intros u tku Hgu Hdsu _ HSu e He Hc. rewrite Hcomp in Hc.
    assert (Nu : u <> x) by (intros ->; rewrite Hg' in Hgu; inversion Hgu; subst; congruence).
    rewrite (Hoth u Nu) in Hgu. destruct (K4 u tku Hgu Hdsu ltac:(discriminate) HSu e He Hc) as [H1 H2].
    split; [exact H1|]. rewrite Hst'. intros Hin. apply in_app_or in Hin as [Hin|Hin]; [|apply H2; rewrite Hst; exact Hin].
    apply in_rev in Hin. destruct (Htodo e Hin) as [H3 _]. apply Nu. apply (D2 u x tku tk e Hgu Hg He H3 Hc).
  - rewrite Hst'. apply NoDup_app_intro.
    + apply NoDup_rev. apply (D3 x tk Hg).
    + rewrite <- Hst. exact K5.
    + intros e He. apply in_rev in He. destruct (Hfree e He) as [_ H]. rewrite <- Hst. exact H.
  - intros d Hd. rewrite Hst' in Hd. apply in_app_or in Hd as [Hd|Hd].
    + apply in_rev in Hd. destruct (Htodo d Hd) as [H1 _]. apply Hdom. apply (D1 x None tk d Hg H1).
    + apply Hdom. apply K6. rewrite Hst. exact Hd.
  - right. rewrite Hst'. rewrite Hst in K7. destruct K7 as [K7|(above & K7)]; [discriminate|].
    exists (rev todo ++ above). rewrite K7, app_assoc. reflexivity.
  - rewrite Hst'. intros E. apply app_eq_nil in E as [_ E]. discriminate.
Qed.

(* a task yields: its dependencies become (old ones, all computed) ++ (fresh, distinct futures) *)
Lemma deps_ok_yield root s s' t tk tk' (newd : list fid) :
  deps_ok root s -> get root s <> None ->
  get t s = Some (mkFut None (KTask tk)) -> upd_entry s s' t (mkFut None (KTask tk')) ->
  tk_deps tk' = tk_deps tk ++ newd -> (forall e, In e (tk_deps tk) -> computed e s = true) ->
  NoDup newd -> (forall e, In e newd -> get e s <> None /\ e <> root /\
                   forall p o tkp, get p s = Some (mkFut o (KTask tkp)) -> ~ In e (tk_deps tkp)) ->
  (1 <= tk_iter tk)%Z -> tk_iter tk' = tk_iter tk ->
  deps_ok root s'.
Proof.
  intros [K1 K2 K3 K4 K5 K6] Hroot Hg U Hd Hold Hnd Hnew Hi Hi'.
  pose proof (upd_entry_dom _ _ _ _ _ Hg U) as Dom. destruct U as (A & B & _).
  assert (Hcomp : forall e, computed e s' = computed e s).
  { intros e. unfold computed. destruct (fid_eqb e t) eqn:E.
    - apply fid_eqb_eq in E. subst e. rewrite A, Hg. reflexivity.
    - assert (e <> t) by (intros ->; rewrite fid_eqb_refl in E; discriminate). rewrite B by assumption. reflexivity. }
  assert (Hent : forall p o tkp, get p s' = Some (mkFut o (KTask tkp)) ->
            (p = t /\ o = None /\ tkp = tk') \/ (p <> t /\ get p s = Some (mkFut o (KTask tkp)))).
  { intros p o tkp Hp. destruct (fid_eqb p t) eqn:E.
    - apply fid_eqb_eq in E. subst p. rewrite A in Hp. inversion Hp; subst. left. auto.
    - assert (p <> t) by (intros ->; rewrite fid_eqb_refl in E; discriminate). rewrite B in Hp by assumption. right. auto. }
  constructor.
  - intros p o tkp d Hp Hin. apply Dom. destruct (Hent p o tkp Hp) as [(-> & -> & ->)|(N & Hp0)].
    + rewrite Hd in Hin. apply in_app_or in Hin as [Hin|Hin]; [apply (K1 t None tk d Hg Hin)|apply Hnew; exact Hin].
    + apply (K1 p o tkp d Hp0 Hin).
  - intros p p' tkp tkp' d Hp Hp' Hin Hin' Hc. rewrite Hcomp in Hc.
    destruct (Hent p None tkp Hp) as [(-> & _ & ->)|(N & Hp0)]; destruct (Hent p' None tkp' Hp') as [(-> & _ & ->)|(N' & Hp0')]; auto.
    + rewrite Hd in Hin. apply in_app_or in Hin as [Hin|Hin].
      * rewrite (Hold d Hin) in Hc. discriminate.
      * exfalso. destruct (Hnew d Hin) as (_ & _ & H). apply (H p' None tkp' Hp0' Hin').
    + rewrite Hd in Hin'. apply in_app_or in Hin' as [Hin'|Hin'].
      * rewrite (Hold d Hin') in Hc. discriminate.
      * exfalso. destruct (Hnew d Hin') as (_ & _ & H). apply (H p None tkp Hp0 Hin).
    + apply (K2 p p' tkp tkp' d Hp0 Hp0' Hin Hin' Hc).
  - intros p tkp Hp. destruct (Hent p None tkp Hp) as [(-> & _ & ->)|(N & Hp0)].
    + rewrite Hd, filter_app.
      assert (filter (fun d => negb (computed d s')) (tk_deps tk) = []) as ->.
      { clear - Hold Hcomp. induction (tk_deps tk) as [|e l IH]; [reflexivity|]. cbn. rewrite Hcomp, (Hold e (or_introl eq_refl)). cbn.
        apply IH. intros e' He'. apply Hold. right. exact He'. }
      cbn. apply NoDup_filter. exact Hnd.
    + apply (NoDup_filter_weaken (fun d => negb (computed d s))); [intros z; rewrite Hcomp; auto|apply (K3 p tkp Hp0)].
  - intros p o tkp Hp Hin. destruct (Hent p o tkp Hp) as [(-> & -> & ->)|(N & Hp0)].
    + rewrite Hd in Hin. apply in_app_or in Hin as [Hin|Hin]; [apply (K4 t None tk Hg Hin)|].
      destruct (Hnew root Hin) as (_ & H & _). congruence.
    + apply (K4 p o tkp Hp0 Hin).
  - intros p tkp Hp Hne. destruct (Hent p None tkp Hp) as [(-> & _ & ->)|(N & Hp0)]; [lia|apply (K5 p tkp Hp0 Hne)].
  - intros p o tkp Hp. destruct (Hent p o tkp Hp) as [(-> & -> & ->)|(N & Hp0)]; [pose proof (K6 t None tk Hg); lia|apply (K6 p o tkp Hp0)].
Qed.

Lemma pass_ok_weaken root S t s : pass_ok root S None s -> pass_ok root S (Some t) s.
Proof.
  intros [K1 K2 K3 K4 K5 K6 K7 K8]. constructor; auto.
  - intros above x below tk Hst Hg Hds _. apply (K3 above x below tk Hst Hg Hds). discriminate.
  - intros u tk Hg Hds _. apply (K4 u tk Hg Hds). discriminate.
Qed.

Lemma computed_upd_none s s' x tk tk' :
  get x s = Some (mkFut None (KTask tk)) -> upd_entry s s' x (mkFut None (KTask tk')) -> forall e, computed e s' = computed e s.
Proof.
  intros Hg (A & B & _) e. unfold computed. destruct (fid_eqb e x) eqn:E.
  - apply fid_eqb_eq in E. subst e. rewrite A, Hg. reflexivity.
  - assert (e <> x) by (intros ->; rewrite fid_eqb_refl in E; discriminate). rewrite B by assumption. reflexivity.
Qed.

Lemma not_blocked_done tk s : is_blocked tk s = false -> forall e, In e (tk_deps tk) -> computed e s = true.
Proof.
  unfold is_blocked. intros H e He. destruct (computed e s) eqn:E; [reflexivity|].
  assert (X : existsb (fun d => negb (computed d s)) (tk_deps tk) = true) by (apply existsb_exists; exists e; rewrite E; auto).
  congruence.
Qed.

Lemma blocked_witness tk s : is_blocked tk s = true -> exists e, In e (tk_deps tk) /\ computed e s = false.
Proof.
  unfold is_blocked. intros H. apply existsb_exists in H as (e & He & Hc). exists e. split; [exact He|]. apply negb_true_iff. exact Hc.
Qed.

Lemma in_futs (l : list rleaf) h : In h (futs l) <-> In (RFut h) l.
Proof.
  unfold futs. rewrite in_flat_map. split.
  - intros ([h'|] & Hin & Hh); [destruct Hh as [<-|[]]; exact Hin|destruct Hh].
  - intros Hin. exists (RFut h). split; [exact Hin|left; reflexivity].
Qed.

(* the running task's entry becomes computed: nothing is left to say about its dependencies *)
Lemma frame_t_finish t s s' tk o tkf :
  get t s = Some (mkFut None (KTask tk)) -> upd_entry s s' t (mkFut (Some o) (KTask tkf)) -> tasks s' = tasks s ->
  tk_deps tkf = [] -> (tk_iter tk <= tk_iter tkf)%Z -> frame_t t s s'.
Proof.
  intros Hg U Ht Hd Hi. apply (frame_t_upd t s s' None tk (Some o) tkf Hg U Ht); [discriminate|right; exact Hd|exact Hi].
Qed.

(* ------------------------------------------------------------------ flushing never deletes an entry *)
Lemma flush_batch_dom P k s h : get h s <> None -> get h (flush_batch P k s) <> None.
Proof.
  intros Hh. unfold flush_batch. destruct (b_done (get_batch k s)); [exact Hh|].
  set (s0 := if Z.eqb (cur_idx (fst k) s) (snd k) then with_cur s (upd Z.eqb (fst k) (snd k + 1) (cur s)) else s).
  assert (Hh0 : heap s0 = heap s) by (unfold s0; destruct (Z.eqb _ _); reflexivity).
  set (s1 := emit (EvFlush (fst k) (snd k) (b_items (get_batch k s))) s0).
  pose proof (flush_body_spec (b_items (get_batch k s)) 0 (ks_raise (kspec_of P (fst k))) s1) as HB.
  destruct (flush_body (b_items (get_batch k s)) 0 (ks_raise (kspec_of P (fst k))) s1) as [s2 err].
  cbn zeta in HB. cbn [fst] in HB. destruct HB as (_ & _ & G2 & _).
  pose proof (fold_complete_spec (match err with Some e => Err e | None => Err E_NOTSET end) (b_items (get_batch k s)) s2) as HF.
  cbn zeta in HF. destruct HF as (_ & _ & G3 & _).
  change (get h (put_batch ?a ?b ?z)) with (get h z). apply G3, G2. unfold get, s1. cbn. rewrite Hh0. exact Hh.
Qed.

Lemma continue_with_batch_dom P s h : get h s <> None -> get h (continue_with_batch P s) <> None.
Proof.
  intros Hh. unfold continue_with_batch. pose proof (select_batches P s) as [_ Hheap].
  destruct (select P s) as [[k|] s1]; cbn [snd] in Hheap.
  - rewrite get_emit. apply flush_batch_dom. unfold get. cbn. rewrite Hheap. exact Hh.
  - unfold get. rewrite Hheap. exact Hh.
Qed.

Lemma deps_ok_drop_sb root s : get root s <> None -> deps_ok root s -> deps_ok root (drop_sb s).
Proof. intros Hr HD. apply (deps_ok_step root s); [exact Hr|exact HD|apply deps_step_view; apply heap_drop_sb]. Qed.

Section C04.
  Variable P : params.
  Hypothesis HP : pointwise P.
  Variable root : fid.
  Variable res : outcome.

  Definition running_deps_done (s : st) (t : fid) : Prop :=
    forall tk, get t s = Some (mkFut None (KTask tk)) -> forall e, In e (tk_deps tk) -> computed e s = true.

  Definition after_run (S : Sset) (s : st) (t : fid) : Prop :=
    forall tk, get t s = Some (mkFut None (KTask tk)) ->
      forall e, In e (tk_deps tk) -> computed e s = false -> ~ S e /\ ~ In e (tasks s).

  Definition stuck (S : Sset) (s : st) : Prop :=
    computed root s = true \/ (S root /\ forall d, S d -> S_ok S s d).

  Definition DL (spec : specmap) (S : Sset) (c : cfg) : Prop :=
    FL root res spec c /\
    match c_mode c with
    | MUnwind _ | MDone _ | MStuck => True
    | m => deps_ok root (c_st c) /\
      match m with
      | MExecLoop => pass_ok root S None (c_st c)
      | MResume t => pass_ok root S (Some t) (c_st c) /\ running_deps_done (c_st c) t
      | MRun t _ => pass_ok root S (Some t) (c_st c) /\ running_deps_done (c_st c) t /\
                    (forall tk, get t (c_st c) = Some (mkFut None (KTask tk)) -> (1 <= tk_iter tk)%Z)
      | MContRet => exists t rest, tasks (c_st c) = t :: rest /\ pass_ok root S (Some t) (c_st c) /\ after_run S (c_st c) t
      | MAfterExec => stuck S (c_st c)
      | _ => True
      end
    end.

  Lemma root_alloc spec c m : c_mode c = m -> CInv root res spec c ->
    match m with MUnwind _ | MDone _ | MStuck => True | _ => get root (c_st c) <> None end.
  Proof.
    intros Hm (_ & H). rewrite Hm in H. destruct m; try exact I; destruct H as (_ & _ & (o1 & tk1 & Hg) & _); rewrite Hg; discriminate.
  Qed.

  Lemma dl_MValue spec S h fr s : DL spec S (mkC (MValue h) fr s) -> DL spec S (step P (mkC (MValue h) fr s)).
  Proof.
    intros (HFL & HD & _). split; [apply fl_MValue; auto|].
    destruct HFL as ((Hr & Hf & HS & Ht & ->) & _). cbn in *. subst fr. cbn [step c_mode c_frames c_st].
    destruct (computed root s); [cbn; auto|]. destruct Ht as (out & tk & Hg). rewrite Hg. cbn. auto.
  Qed.

  Lemma dl_MDeliver spec S o fr s : DL spec S (mkC (MDeliver o) fr s) -> DL spec S (step P (mkC (MDeliver o) fr s)).
  Proof.
    intros (HFL & HD & _). split; [apply fl_MDeliver; auto|].
    destruct HFL as ((Hr & Hf & _) & _). cbn in Hf. subst fr. cbn. exact I.
  Qed.

  (* a new pass starts with nothing settled *)
  Lemma dl_MWaitHead spec S fr s : DL spec S (mkC MWaitHead fr s) ->
    exists S', DL spec S' (step P (mkC MWaitHead fr s)) /\ (computed root s = false -> forall d, ~ S' d).
  Proof.
    intros (HFL & HD & _). pose proof (fl_MWaitHead P root res spec fr s HFL) as HFL'.
    destruct HFL as ((Hr & Hf & HS & Ht & _) & HF & HK). cbn in Hf, HS, Ht, HF, HK. subst fr.
    cbn [step c_mode c_frames c_st] in *. destruct (computed root s) eqn:Hc.
    - exists S. split; [|intros E; discriminate]. split; [exact HFL'|]. cbn.
      split; [apply deps_ok_drop_sb; [destruct Ht as (o & tk & Hg); rewrite Hg; discriminate|exact HD]|exact I].
    - exists (fun _ => False). split; [|intros _ d []]. split; [exact HFL'|]. cbn. split.
      + apply (deps_ok_step root s); [destruct Ht as (o & tk & Hg); rewrite Hg; discriminate|exact HD|apply deps_step_view; reflexivity].
      + destruct Ht as (o & tk & Hg).
        assert (o = None) as -> by (unfold computed in Hc; rewrite Hg in Hc; cbn in Hc; destruct o; [discriminate|reflexivity]).
        constructor; cbn [tasks with_tasks].
        * intros d [].
        * intros d [].
        * intros above x below tkx Hst Hgx Hds _ e He. exfalso. rewrite HK in Hst.
          destruct above as [|a above']; cbn in Hst; inversion Hst; subst; [|destruct above'; discriminate].
          change (get x (with_tasks s [x])) with (get x s) in Hgx. destruct (HF x tkx Hgx) as [Hfl _].
          rewrite HK in Hfl. destruct (Hfl (or_introl Hds)).
        * intros u tku Hgu Hds _ _ e He Hce. split; [intros []|]. rewrite HK. intros [<-|[]].
          change (get u (with_tasks s [root])) with (get u s) in Hgu. apply (dk_root root s HD u None tku Hgu He).
        * rewrite HK. constructor; [intros []|constructor].
        * rewrite HK. intros d [<-|[]]. change (get root (with_tasks s [root])) with (get root s). rewrite Hg. discriminate.
        * right. exists []. rewrite HK. reflexivity.
        * rewrite HK. discriminate.
  Qed.

  Lemma deps_step_cwb spec s : SInv spec None s -> deps_step s (continue_with_batch P s).
  Proof.
    intros HS. destruct (SInv_continue_with_batch spec None P s HP HS) as (_ & B & _).
    split; [intros d; apply continue_with_batch_dom|]. split; [exact B|].
    intros p o' tk' Hg. right. exists o', tk'. split; [apply (continue_with_batch_task_back P s); [apply HS|exact Hg]|].
    split; [auto|]. split; [left; reflexivity|lia].
  Qed.

  Lemma dl_MAfterExec spec S fr s : DL spec S (mkC MAfterExec fr s) -> DL spec S (step P (mkC MAfterExec fr s)).
  Proof.
    intros (HFL & HD & _). split; [apply fl_MAfterExec; auto|].
    destruct HFL as ((Hr & Hf & HS & Ht & _) & _). cbn in Hf, HS, Ht. subst fr. cbn [step c_mode c_frames c_st].
    assert (Hroot : get root s <> None) by (destruct Ht as (o & tk & Hg); rewrite Hg; discriminate).
    destruct (computed root s); [cbn; split; [apply deps_ok_drop_sb; assumption|exact I]|]. cbn. split; [|exact I].
    apply (deps_ok_step root s); [exact Hroot|exact HD|apply (deps_step_cwb spec); exact HS].
  Qed.

  Lemma dl_MExecLoop spec S fr s : DL spec S (mkC MExecLoop fr s) ->
    exists S', DL spec S' (step P (mkC MExecLoop fr s)) /\ (forall d, S' d -> S d \/ exists ts, tasks s = d :: ts).
  Proof.
    intros (HFL & HD & HPk). pose proof (fl_MExecLoop P root res spec fr s HFL) as HFL'.
    destruct HFL as ((Hr & Hf & HS & Ht & _) & HF & HK). cbn in Hf, HS, Ht, HF, HK. subst fr.
    assert (Hroot : get root s <> None) by (destruct Ht as (o & tk & Hg); rewrite Hg; discriminate).
    cbn [c_mode c_frames c_st] in HD, HPk.
    cbn [step c_mode c_frames c_st] in *.
    assert (Hend : tasks s = [] -> stuck S s).
    { intros E. destruct (pk_end _ _ _ _ HPk E) as [Hc|HSr]; [left; exact Hc|right; split; [exact HSr|apply (pk_ok _ _ _ _ HPk)]]. }
    destruct (Nat.leb (length (tasks s)) 0) eqn:Hle.
    { exists S. split; [|intros d0 Hd0; left; exact Hd0]. split; [exact HFL'|]. cbn. split; [exact HD|]. apply Nat.leb_le in Hle. apply Hend.
      destruct (tasks s); [reflexivity|cbn in Hle; lia]. }
    destruct (Z.ltb (p_maxstack P) (Z.of_nat (length (tasks s)))); [exists S; split; [|intros d0 Hd0; left; exact Hd0]; split; [exact HFL'|exact I]|].
    destruct (tasks s) as [|x ts] eqn:Hts; [exists S; split; [|intros d0 Hd0; left; exact Hd0]; split; [exact HFL'|]; cbn; split; [exact HD|apply Hend; reflexivity]|].
    (* generic pop: the stack loses x, the heap may change at x only *)
    assert (Hpop : forall S' s2, deps_step s s2 -> tasks s2 = x :: ts -> (forall h, h <> x -> get h s2 = get h s) ->
              ((S' = S /\ computed x s2 = true) \/ (S' = S_add S x /\ S_ok S' s2 x)) ->
              deps_ok root (pop_task s2) /\ pass_ok root S' None (pop_task s2)).
    { intros S' s2 Hd Ht2 Hoth Hx. split.
      - apply (deps_ok_step root s); [exact Hroot|exact HD|]. eapply deps_step_trans; [exact Hd|apply deps_step_view; reflexivity].
      - apply (pass_pop root S S' s (pop_task s2) x ts HPk Hts).
        + unfold pop_task. cbn. rewrite Ht2. reflexivity.
        + intros h N. change (get h (pop_task s2)) with (get h s2). apply Hoth. exact N.
        + intros h Hh. change (get h (pop_task s2)) with (get h s2). destruct Hd as (D1 & _). apply D1. exact Hh.
        + intros e He. change (computed e (pop_task s2)) with (computed e s2). destruct Hd as (_ & D2 & _). apply D2. exact He.
        + exact Hx. }
    destruct (computed x s) eqn:Hcx.
    { exists S. split; [|intros d0 Hd0; left; exact Hd0]. split; [exact HFL'|]. cbn [c_mode c_st]. apply (Hpop S s); [apply deps_step_refl|exact Hts|auto|left; auto]. }
    destruct (get x s) as [[out [tk|kind idx key a|o'|]]|] eqn:Hg.
    - assert (out = None) as -> by (unfold computed in Hcx; rewrite Hg in Hcx; cbn in Hcx; destruct out; [discriminate|reflexivity]).
      destruct (is_blocked tk s) eqn:Hb.
      + destruct (tk_ds tk) eqn:Hds.
        * (* settled *)
          pose proof (set_task_upd s x None tk (tk_set_ds tk false) Hg) as U1. pose proof U1 as (G1 & _).
          assert (HS1 : SInv spec None (set_task x (tk_set_ds tk false) s)) by (apply (SInv_set_task_same spec None s x None tk); auto).
          pose proof (pause_entry spec None _ x None _ HS1 G1) as U2.
          pose proof (upd_entry_trans _ _ _ _ _ _ U1 U2) as U.
          set (s2 := pause_contexts x (set_task x (tk_set_ds tk false) s)) in *.
          set (tk' := tk_with_ctxs (tk_set_ds tk false) (tk_ctxs (tk_set_ds tk false)) false) in *.
          pose proof (computed_upd_none s s2 x tk tk' Hg U) as Hcomp.
          exists (S_add S x). split; [|intros d0 [Hd0| ->]; [left; exact Hd0|right; exists ts; reflexivity]]. split; [exact HFL'|]. cbn [c_mode c_st].
          apply (Hpop (S_add S x) s2).
          -- apply (deps_step_upd s s2 x None tk None tk' Hg U); [auto|left; reflexivity|cbn; lia].
          -- rewrite (tasks_of_regs s); [exact Hts|]. unfold s2. rewrite regs_pause_contexts, regs_set_task. reflexivity.
          -- intros h N. destruct U as (_ & B & _). apply B. exact N.
          -- right. split; [reflexivity|]. left. exists tk'. destruct U as (A & _). split; [exact A|].
             destruct (blocked_witness tk s Hb) as (e0 & He0 & Hc0).
             assert (Hgrey : forall e, In e (tk_deps tk) -> computed e s = true \/ S e).
             { intros e He. destruct (pk_grey _ _ _ _ HPk [] x ts tk Hts Hg Hds ltac:(discriminate) e He) as [H|[H|[]]]; auto. }
             split; [cbn; apply (dk_iter root s HD x tk Hg); intros E; rewrite E in He0; destruct He0|].
             split.
             ++ exists e0. split; [exact He0|]. left. destruct (Hgrey e0 He0) as [H|H]; [congruence|exact H].
             ++ intros e He. destruct (Hgrey e He) as [H|H]; [left; rewrite Hcomp; exact H|right; left; exact H].
        * (* first visit *)
          pose proof (set_task_upd s x None tk (tk_set_ds tk true) Hg) as U1. pose proof U1 as (G1 & _).
          assert (HS1 : SInv spec None (set_task x (tk_set_ds tk true) s)) by (apply (SInv_set_task_same spec None s x None tk); auto).
          pose proof (resume_entry spec None _ x None _ HS1 G1) as U2.
          pose proof (upd_entry_trans _ _ _ _ _ _ U1 U2) as U.
          set (s2 := resume_contexts x (set_task x (tk_set_ds tk true) s)) in *.
          set (tk' := tk_with_ctxs (tk_set_ds tk true) (tk_ctxs (tk_set_ds tk true)) true) in *.
          pose proof (computed_upd_none s s2 x tk tk' Hg U) as Hcomp.
          assert (Hgt : get_task x s2 = Some tk') by (unfold get_task; destruct U as (A & _); rewrite A; reflexivity).
          rewrite Hgt in HFL' |- *. change (tk_deps tk') with (tk_deps tk) in HFL' |- *.
          assert (Htk2 : tasks s2 = x :: ts).
          { rewrite (tasks_of_regs s); [exact Hts|]. unfold s2. rewrite regs_resume_contexts, regs_set_task. reflexivity. }
          exists S. split; [|intros d0 Hd0; left; exact Hd0]. split; [exact HFL'|]. cbn [c_mode c_st]. split.
          -- apply (deps_ok_step root s); [exact Hroot|exact HD|]. eapply deps_step_trans; [|apply deps_step_view; reflexivity].
             apply (deps_step_upd s s2 x None tk None tk' Hg U); [auto|left; reflexivity|cbn; lia].
          -- apply (pass_push root S s _ x ts tk tk' HPk HF HD Hts Hg Hds).
             ++ change (get x (with_tasks s2 ?l)) with (get x s2). destruct U as (A & _). exact A.
             ++ reflexivity.
             ++ reflexivity.
             ++ intros h N. change (get h (with_tasks s2 ?l)) with (get h s2). destruct U as (_ & B & _). apply B. exact N.
             ++ intros e. change (computed e (with_tasks s2 ?l)) with (computed e s2). apply Hcomp.
             ++ cbn [tasks with_tasks]. rewrite Htk2. f_equal. f_equal. apply filter_ext. intros d. rewrite Hcomp. reflexivity.
      + (* not blocked: the task runs *)
        rewrite (computed_resume_contexts spec None s x HS x), Hcx in HFL' |- *.
        pose proof (resume_entry spec None s x None tk HS Hg) as U.
        set (tk' := tk_with_ctxs tk (tk_ctxs tk) true) in *.
        exists S. split; [|intros d0 Hd0; left; exact Hd0]. split; [exact HFL'|]. cbn [c_mode c_st].
        assert (Fr : frame_t x s (with_active (resume_contexts x s) (Some x))).
        { eapply frame_t_trans; [|apply frame_t_view; reflexivity].
          apply (frame_t_upd x s _ None tk None tk' Hg U); [|auto|left; reflexivity|cbn; lia].
          apply tasks_of_regs. rewrite regs_resume_contexts. reflexivity. }
        split; [apply (deps_ok_step root s); [exact Hroot|exact HD|apply Fr]|]. split.
        * apply (pass_ok_frame root S x s); [apply pass_ok_weaken; exact HPk|rewrite Hts; left; reflexivity|exact Fr].
        * intros tk2 Hg2 e He. change (get x (with_active ?a ?b)) with (get x a) in Hg2. destruct U as (A & _). rewrite A in Hg2.
          inversion Hg2; subst tk2. change (tk_deps tk') with (tk_deps tk) in He.
          change (computed e (with_active ?a ?b)) with (computed e a).
          rewrite (computed_resume_contexts spec None s x HS e). apply (not_blocked_done tk s Hb e He).
    - (* item: settled *)
      assert (out = None) as -> by (unfold computed in Hcx; rewrite Hg in Hcx; cbn in Hcx; destruct out; [discriminate|reflexivity]).
      assert (Hh : heap (schedule_batch (kind, idx) s) = heap s) by (unfold schedule_batch; destruct (b_done _); [reflexivity|]; destruct (existsb _ _); reflexivity).
      exists (S_add S x). split; [|intros d0 [Hd0| ->]; [left; exact Hd0|right; exists ts; reflexivity]]. split; [exact HFL'|]. cbn [c_mode c_st].
      apply (Hpop (S_add S x) (schedule_batch (kind, idx) s)).
      + apply deps_step_view. exact Hh.
      + rewrite (tasks_of_regs s); [exact Hts|]. rewrite regs_schedule_batch. reflexivity.
      + intros h _. unfold get. rewrite Hh. reflexivity.
      + right. split; [reflexivity|]. right. exists kind, idx, key, a. unfold get. rewrite Hh. exact Hg.
    - (* lazy *)
      exists S. split; [|intros d0 Hd0; left; exact Hd0]. split; [exact HFL'|]. cbn [c_mode c_st].
      apply (Hpop S (put x (mkFut (Some o') (KLazy o')) s)).
      + apply (deps_step_nontask s _ x (mkFut out (KLazy o')) (mkFut (Some o') (KLazy o')) Hg); cbn; try discriminate.
        apply upd_entry_put.
      + reflexivity || exact Hts.
      + intros h N. apply get_put_other. exact N.
      + left. split; [reflexivity|]. unfold computed. rewrite get_put_same. reflexivity.
    - (* other: computed by SInv *)
      exfalso. destruct HS as (HE & _). destruct (HE x _ Hg) as (_ & o & _ & _ & Hk). cbn in Hk.
      unfold computed in Hcx. rewrite Hg in Hcx. cbn in Hcx. destruct out; [discriminate|]. apply Hk. reflexivity.
    - exfalso. apply (pk_alloc _ _ _ _ HPk x); [rewrite Hts; left; reflexivity|exact Hg].
  Qed.

  Lemma dl_MResume spec S t fr s : DL spec S (mkC (MResume t) fr s) -> DL spec S (step P (mkC (MResume t) fr s)).
  Proof.
    intros (HFL & HD & HPk & Hrd). pose proof (fl_MResume P root res spec t fr s HFL) as HFL'. split; [exact HFL'|]. clear HFL'.
    destruct HFL as ((Hr & Hf & HS & Ht & (tk & Hg & Hcomp)) & HF & HK). cbn in HK, HS, HF, Hg, HD, HPk, Hrd.
    destruct HK as ((old & ->) & (rest & Hts) & Hca). cbn in Ht.
    assert (Hroot : get root s <> None) by (destruct Ht as (o & tk0 & Hg0); rewrite Hg0; discriminate).
    cbn [step c_mode c_frames c_st]. unfold get_task. rewrite Hg.
    destruct (SInv_entry _ _ _ _ _ HS Hg) as (_ & ot & Hst & _ & Hp & Hk). cbn in Hp, Hk.
    destruct (Hk eq_refl ltac:(discriminate)) as (k & K1 & _). rewrite K1.
    set (tk1 := mkTask (Some k) YNone (if p_keep P then tk_deps tk else []) (tk_ctxs tk) (tk_cact tk) (tk_ds tk) (tk_iter tk + 1) (tk_next tk)).
    set (s2 := emit (EvStep t (tk_iter tk) (unwrap (look s) (tk_last tk))) (set_task t tk1 s)).
    assert (U : upd_entry s s2 t (mkFut None (KTask tk1))).
    { eapply upd_entry_view; [apply (set_task_upd s t None tk tk1 Hg)|reflexivity|reflexivity|reflexivity]. }
    assert (Htk : tasks s2 = tasks s) by (apply tasks_of_regs; unfold s2; rewrite regs_emit, regs_set_task; reflexivity).
    assert (Hdeps : tk_deps tk1 = tk_deps tk \/ tk_deps tk1 = []) by (cbn; destruct (p_keep P); auto).
    assert (Fr : frame_t t s s2) by (apply (frame_t_upd t s s2 None tk None tk1 Hg U Htk); [auto|exact Hdeps|cbn; lia]).
    cbn [c_mode c_st]. split; [apply (deps_ok_step root s); [exact Hroot|exact HD|apply Fr]|].
    split; [apply (pass_ok_frame root S t s); [exact HPk|rewrite Hts; left; reflexivity|exact Fr]|].
    pose proof (computed_upd_none s s2 t tk tk1 Hg U) as Hcomp2.
    split.
    - intros tk2 Hg2 e He. destruct U as (A & _). rewrite A in Hg2. inversion Hg2; subst tk2.
      rewrite Hcomp2. apply (Hrd tk Hg e). destruct Hdeps as [E|E]; rewrite E in He; [exact He|destruct He].
    - intros tk2 Hg2. destruct U as (A & _). rewrite A in Hg2. inversion Hg2; subst tk2. cbn.
      pose proof (dk_iter0 root s HD t None tk Hg). lia.
  Qed.

  (* the running task's entry changes but not its dependencies or step count (entering / leaving a context) *)
  Lemma dlrun_upd S t s s2 tk tk1 :
    deps_ok root s -> get root s <> None -> pass_ok root S (Some t) s -> In t (tasks s) -> running_deps_done s t ->
    (1 <= tk_iter tk)%Z -> get t s = Some (mkFut None (KTask tk)) -> upd_entry s s2 t (mkFut None (KTask tk1)) ->
    tasks s2 = tasks s -> tk_deps tk1 = tk_deps tk -> tk_iter tk1 = tk_iter tk ->
    deps_ok root s2 /\ pass_ok root S (Some t) s2 /\ running_deps_done s2 t /\
    (forall tk', get t s2 = Some (mkFut None (KTask tk')) -> (1 <= tk_iter tk')%Z).
  Proof.
    intros HD Hroot HPk Hint Hrd Hi Hg U Htk Hd Hi1.
    assert (Fr : frame_t t s s2) by (apply (frame_t_upd t s s2 None tk None tk1 Hg U Htk); [auto|left; exact Hd|lia]).
    pose proof (computed_upd_none s s2 t tk tk1 Hg U) as Hc.
    split; [apply (deps_ok_step root s); [exact Hroot|exact HD|apply Fr]|].
    split; [apply (pass_ok_frame root S t s); assumption|].
    destruct U as (A & _). split.
    - intros tk' Hg' e He. rewrite A in Hg'. inversion Hg'; subst tk'. rewrite Hd in He. rewrite Hc. apply (Hrd tk Hg e He).
    - intros tk' Hg'. rewrite A in Hg'. inversion Hg'; subst tk'. lia.
  Qed.

  Lemma dl_MRun spec S t p fr s : DL spec S (mkC (MRun t p) fr s) -> exists spec', DL spec' S (step P (mkC (MRun t p) fr s)).
  Proof.
    intros (HFL & HD & HPk & Hrd & Hit). destruct (fl_MRun P root res spec t p fr s HFL) as (spec' & HFL'). exists spec'. split; [exact HFL'|]. clear HFL'.
    destruct HFL as ((Hr & Hf & HS & Ht & (Htree & Hst & (tk & Hg))) & HF & HK). cbn in HK, HS, HF, Hg, Ht, HD, HPk, Hrd, Hit.
    destruct HK as ((old & ->) & (rest & Hts) & Hca).
    assert (Hroot : get root s <> None) by (destruct Ht as (o & tk0 & Hg0); rewrite Hg0; discriminate).
    assert (Hint : In t (tasks s)) by (rewrite Hts; left; reflexivity).
    cbn [step c_mode c_frames c_st]. unfold get_task. rewrite Hg.
    assert (Hfin : forall o, let s1 := set_task t (mkTask None (tk_last tk) (tk_deps tk) (tk_ctxs tk) (tk_cact tk) (tk_ds tk) (tk_iter tk) (tk_next tk)) s in
              computed t s1 = false /\
              deps_ok root (complete_task t o s1) /\
              exists t0 rest0, tasks (complete_task t o s1) = t0 :: rest0 /\ pass_ok root S (Some t0) (complete_task t o s1) /\
                               after_run S (complete_task t o s1) t0).
    { intros o. cbn zeta.
      set (tkc := mkTask None (tk_last tk) (tk_deps tk) (tk_ctxs tk) (tk_cact tk) (tk_ds tk) (tk_iter tk) (tk_next tk)).
      pose proof (set_task_upd s t None tk tkc Hg) as U1. pose proof U1 as (G1 & _).
      split; [unfold computed; rewrite G1; reflexivity|].
      rewrite (complete_task_closed t o _ None tkc G1 eq_refl).
      set (tkf := mkTask None YNone [] (tk_ctxs tkc) (tk_cact tkc) (tk_ds tkc) (tk_iter tkc) (tk_next tkc)).
      set (s2 := emit (EvDone t o) (put t (mkFut (Some o) (KTask tkf)) (set_task t tkc s))).
      assert (U2 : upd_entry s s2 t (mkFut (Some o) (KTask tkf))).
      { eapply upd_entry_trans; [exact U1|]. eapply upd_entry_view; [apply upd_entry_put|reflexivity|reflexivity|reflexivity]. }
      assert (Htk : tasks s2 = tasks s) by (apply tasks_of_regs; unfold s2; rewrite regs_emit, regs_put, regs_set_task; reflexivity).
      assert (Fr : frame_t t s s2) by (apply (frame_t_finish t s s2 tk o tkf Hg U2 Htk); [reflexivity|cbn; lia]).
      split; [apply (deps_ok_step root s); [exact Hroot|exact HD|apply Fr]|].
      exists t, rest. split; [rewrite Htk; exact Hts|]. split; [apply (pass_ok_frame root S t s); assumption|].
      intros tk' Hg'. destruct U2 as (A & _). rewrite A in Hg'. discriminate. }
    inversion Htree as [v Ev|v Ev|e Ev|y k Hl Hk Ev|c k Hc Hk Ev|c k Hc Hk Ev]; subst p.
    - destruct (Hfin (Ok v)) as (Hnc & A & B). cbn zeta in *. rewrite Hnc. cbn [c_mode c_st]. split; [exact A|exact B].
    - destruct (Hfin (Ok v)) as (Hnc & A & B). cbn zeta in *. rewrite Hnc. cbn [c_mode c_st]. split; [exact A|exact B].
    - destruct (Hfin (Err e)) as (Hnc & A & B). cbn zeta in *. unfold accept_error. rewrite Hnc. cbn [c_mode c_st]. split; [exact A|exact B].
    - (* Yield *)
      destruct (SInv_inst (Some t) t y spec s HS Hl) as (spec1 & (Ext & HS1 & Old) & Uw & A).
      pose proof (grow_inst spec (Some t) t y s HS Hl) as (Gd & Go).
      pose proof (inst_ids t y s Hl) as (Hle & Hids & Hnd).
      pose proof (regs_inst t y s) as Hri.
      destruct (inst t y s) as [y' s1]. cbn [fst snd] in *.
      assert (Hg1 : get t s1 = Some (mkFut None (KTask tk))) by (rewrite Old; [exact Hg|rewrite Hg; discriminate]).
      rewrite Hg1.
      set (newd := futs (extract y')).
      assert (Hperm : Permutation newd (futs (leaves y'))) by (unfold newd, futs; apply Permutation_flat_map; apply extract_permutation).
      assert (Hfresh : forall e, In e newd -> get e s = None).
      { intros e He. apply (Permutation_in _ Hperm) in He. destruct (Hids e He) as (n & -> & Hn).
        destruct (get [n] s) as [f|] eqn:E; [|reflexivity]. exfalso.
        destruct (SInv_entry _ _ _ _ _ HS E) as ((n' & En & Hn') & _). inversion En. lia. }
      assert (Hnew1 : forall e, In e newd -> get e s1 <> None).
      { intros e He. apply A. apply in_futs. apply (Permutation_in _ Hperm). exact He. }
      assert (Hndn : NoDup newd) by (apply (Permutation_NoDup (Permutation_sym Hperm)); exact Hnd).
      set (tk2 := mkTask (Some k) y' (tk_deps tk ++ newd) (tk_ctxs tk) (tk_cact tk) (tk_ds tk) (tk_iter tk) (tk_next tk)).
      pose proof (set_task_upd s1 t None tk tk2 Hg1) as U2.
      set (s2 := set_task t tk2 s1) in *.
      assert (Htk1 : tasks s1 = tasks s) by (apply tasks_of_regs; exact Hri).
      assert (Htk2 : tasks s2 = tasks s) by (rewrite <- Htk1; apply tasks_of_regs; unfold s2; rewrite regs_set_task; reflexivity).
      pose proof (computed_upd_none s1 s2 t tk tk2 Hg1 U2) as Hc2.
      assert (HD1 : deps_ok root s1) by (apply (deps_ok_step root s); assumption).
      assert (Hroot1 : get root s1 <> None) by (destruct Gd as (D1 & _); apply D1; exact Hroot).
      assert (Hold1 : forall e, In e (tk_deps tk) -> computed e s1 = true).
      { intros e He. destruct Gd as (_ & D2 & _). apply D2. apply (Hrd tk Hg e He). }
      assert (HD2 : deps_ok root s2).
      { apply (deps_ok_yield root s1 s2 t tk tk2 newd HD1 Hroot1 Hg1 U2); [reflexivity|exact Hold1|exact Hndn| |apply (Hit tk Hg)|reflexivity].
        intros e He. split; [apply Hnew1; exact He|]. split.
        - intros ->. apply Hroot. apply Hfresh. exact He.
        - intros p0 o tkp Hp Hin. destruct Gd as (_ & _ & D3). destruct (D3 p0 o tkp Hp) as [(_ & E & _)|(o0 & tk0 & Hg0 & _ & Hd0 & _)].
          + rewrite E in Hin. destruct Hin.
          + destruct Hd0 as [Hd0|Hd0]; [|rewrite Hd0 in Hin; destruct Hin]. rewrite Hd0 in Hin.
            apply (dk_alloc root s HD p0 o0 tk0 e Hg0 Hin). apply Hfresh. exact He. }
      assert (Fw : frame_w t s s2).
      { destruct Gd as (D1 & D2 & D3). pose proof (upd_entry_dom _ _ _ _ _ Hg1 U2) as Dom2. destruct U2 as (A2 & B2 & _).
        split; [exact Htk2|]. split; [intros d Hd; apply Dom2; apply D1; exact Hd|].
        split; [intros d Hd; rewrite Hc2; apply D2; exact Hd|].
        split; [intros h N Hh; rewrite B2 by exact N; apply Go; exact Hh|].
        intros u tku N Hn Hgu. rewrite B2 in Hgu by exact N.
        destruct (D3 u None tku Hgu) as [(_ & E & _)|(o0 & tk0 & Hg0 & _)]; [exact E|congruence]. }
      pose proof (pass_ok_frame_w root S t s s2 HPk Hint Fw) as HPk2.
      assert (Hg2 : get t s2 = Some (mkFut None (KTask tk2))) by (destruct U2 as (A2 & _); exact A2).
      assert (Hdeps2 : forall e, In e (tk_deps tk2) -> In e (tk_deps tk) \/ In e newd) by (intros e He; apply in_app_or; exact He).
      clearbody newd.
      destruct newd as [|d0 dl]; cbn [c_mode c_st]; (split; [exact HD2|]).
      + split; [exact HPk2|]. intros tk' Hg' e He. rewrite Hg2 in Hg'. inversion Hg'; subst tk'.
        destruct (Hdeps2 e He) as [H|[]]. rewrite Hc2. apply Hold1. exact H.
      + exists t, rest. split; [rewrite Htk2; exact Hts|]. split; [exact HPk2|].
        intros tk' Hg' e He Hc. rewrite Hg2 in Hg'. inversion Hg'; subst tk'.
        destruct (Hdeps2 e He) as [He'|He'].
        * rewrite Hc2, (Hold1 e He') in Hc. discriminate.
        * split.
          -- intros HSe. apply (S_ok_alloc S s e); [apply (pk_ok _ _ _ _ HPk); exact HSe|apply Hfresh; exact He'].
          -- rewrite Htk2. intros Hin. apply (pk_alloc _ _ _ _ HPk e Hin). apply Hfresh. exact He'.
    - (* Enter *)
      unfold enter_ctx, get_task. rewrite Hg.
      set (tk1 := tk_with_ctxs tk (tk_ctxs tk ++ [c]) (tk_cact tk)).
      pose proof (set_task_upd s t None tk tk1 Hg) as U1.
      assert (V : forall s2, heap s2 = heap (set_task t tk1 s) -> tasks s2 = tasks (set_task t tk1 s) ->
                batches s2 = batches (set_task t tk1 s) -> top_next s2 = top_next (set_task t tk1 s) ->
                deps_ok root s2 /\ pass_ok root S (Some t) s2 /\ running_deps_done s2 t /\
                (forall tk', get t s2 = Some (mkFut None (KTask tk')) -> (1 <= tk_iter tk')%Z)).
      { intros s2 E1 E2 E3 E4. apply (dlrun_upd S t s s2 tk tk1); auto.
        - eapply upd_entry_view; [exact U1|exact E1|exact E3|exact E4].
        - rewrite E2. apply tasks_of_regs. rewrite regs_set_task. reflexivity. }
      destruct c as [cid f|cid|cid var v]; cbn [c_mode c_frames c_st]; apply V; reflexivity.
    - (* Exit *)
      rewrite (exit_ctx_active t c s None tk Hg (Hca tk Hg)).
      set (tk1 := tk_with_ctxs tk (remove_ctx c (tk_ctxs tk)) (tk_cact tk)).
      pose proof (set_task_upd s t None tk tk1 Hg) as U1.
      assert (V : forall s2, heap s2 = heap (set_task t tk1 s) -> tasks s2 = tasks (set_task t tk1 s) ->
                batches s2 = batches (set_task t tk1 s) -> top_next s2 = top_next (set_task t tk1 s) ->
                deps_ok root s2 /\ pass_ok root S (Some t) s2 /\ running_deps_done s2 t /\
                (forall tk', get t s2 = Some (mkFut None (KTask tk')) -> (1 <= tk_iter tk')%Z)).
      { intros s2 E1 E2 E3 E4. apply (dlrun_upd S t s s2 tk tk1); auto.
        - eapply upd_entry_view; [exact U1|exact E1|exact E3|exact E4].
        - rewrite E2. apply tasks_of_regs. rewrite regs_set_task. reflexivity. }
      unfold pause_plain. destruct c as [cid f|cid|cid var v]; cbn [c_mode c_frames c_st]; apply V; reflexivity.
  Qed.

  (* back in the pass: the task that ran is an ordinary (white) stack entry again *)
  Lemma pass_ok_unrun S t rest s s2 :
    pass_ok root S (Some t) s -> tasks s = t :: rest -> after_run S s t ->
    tasks s2 = tasks s -> (forall h, h <> t -> get h s2 = get h s) -> (forall e, computed e s2 = computed e s) ->
    (get t s <> None -> get t s2 <> None) ->
    (forall tk', get t s2 = Some (mkFut None (KTask tk')) ->
       tk_ds tk' = false /\ exists tk, get t s = Some (mkFut None (KTask tk)) /\ tk_deps tk' = tk_deps tk) ->
    pass_ok root S None s2.
  Proof.
    intros [K1 K2 K3 K4 K5 K6 K7 K8] Hts Har Ht2 Hoth Hcomp Hdomt Hent.
    assert (Hint : In t (tasks s)) by (rewrite Hts; left; reflexivity).
    assert (HSt : ~ S t) by (intros H; apply (K1 t H Hint)).
    constructor.
    - intros d Hd. rewrite Ht2. apply K1. exact Hd.
    - intros d Hd. apply (S_ok_frame S s); [apply K2; exact Hd| |intros e; rewrite Hcomp; auto].
      apply Hoth. intros ->. contradiction.
    - intros above x below tk Hst Hg Hds _ e He. rewrite Ht2 in Hst. rewrite Hcomp.
      destruct (fid_eqb x t) eqn:E.
      + apply fid_eqb_eq in E. subst x. destruct (Hent tk Hg) as [E1 _]. congruence.
      + assert (Nx : x <> t) by (intros ->; rewrite fid_eqb_refl in E; discriminate). rewrite (Hoth x Nx) in Hg.
        apply (K3 above x below tk Hst Hg Hds); [congruence|exact He].
    - intros u tk Hg Hds _ HSu e He Hc. rewrite Ht2. rewrite Hcomp in Hc.
      destruct (fid_eqb u t) eqn:E.
      + apply fid_eqb_eq in E. subst u. destruct (Hent tk Hg) as (_ & tk0 & Hg0 & Hd0). rewrite Hd0 in He.
        apply (Har tk0 Hg0 e He Hc).
      + assert (Nu : u <> t) by (intros ->; rewrite fid_eqb_refl in E; discriminate). rewrite (Hoth u Nu) in Hg.
        apply (K4 u tk Hg Hds); [congruence|exact HSu|exact He|exact Hc].
    - rewrite Ht2. exact K5.
    - intros d Hd. rewrite Ht2 in Hd. destruct (fid_eqb d t) eqn:E.
      + apply fid_eqb_eq in E. subst d. apply Hdomt. apply K6. exact Hd.
      + assert (Nd : d <> t) by (intros ->; rewrite fid_eqb_refl in E; discriminate). rewrite (Hoth d Nd). apply K6. exact Hd.
    - rewrite Ht2. exact K7.
    - rewrite Ht2. intros E. rewrite E in Hts. discriminate.
  Qed.

  Lemma dl_MContRet spec S fr s : DL spec S (mkC MContRet fr s) -> DL spec S (step P (mkC MContRet fr s)).
  Proof.
    intros (HFL & HD & (t0 & rest0 & Hts0 & HPk & Har)). pose proof (fl_MContRet P root res spec fr s HFL) as HFL'. split; [exact HFL'|]. clear HFL'.
    destruct HFL as ((Hr & Hf & HS & Ht & _) & HF & HK). cbn in HK, HF, Ht, HD, HPk, Har, Hts0.
    destruct HK as (t & old & rest & -> & Hts & Hca).
    assert (t0 = t) as -> by congruence.
    assert (Hroot : get root s <> None) by (destruct Ht as (o & tk0 & Hg0); rewrite Hg0; discriminate).
    cbn [step c_mode c_frames c_st].
    set (s1 := with_active s old).
    unfold get_task. change (get t s1) with (get t s).
    destruct (get t s) as [[out [tk| | |]]|] eqn:Hg; cbn [c_mode c_st].
    - pose proof (set_task_upd s1 t out tk (tk_set_ds tk false) Hg) as U.
      assert (U' : upd_entry s (set_task t (tk_set_ds tk false) s1) t (mkFut out (KTask (tk_set_ds tk false)))).
      { destruct U as (A & B & C & D). split; [exact A|]. split; [exact B|]. split; assumption. }
      split.
      + apply (deps_ok_step root s); [exact Hroot|exact HD|].
        apply (deps_step_upd s _ t out tk out (tk_set_ds tk false) Hg U'); [auto|left; reflexivity|cbn; lia].
      + apply (pass_ok_unrun S t rest0 s _ HPk Hts0 Har).
        * change (tasks s) with (tasks s1). apply tasks_of_regs. rewrite regs_set_task. reflexivity.
        * intros h N. destruct U' as (_ & B & _). apply B. exact N.
        * intros e. unfold computed. destruct (fid_eqb e t) eqn:E.
          -- apply fid_eqb_eq in E. subst e. destruct U' as (A & _). rewrite A, Hg. reflexivity.
          -- assert (Ne : e <> t) by (intros ->; rewrite fid_eqb_refl in E; discriminate). destruct U' as (_ & B & _). rewrite B by exact Ne. reflexivity.
        * intros _. destruct U' as (A & _). rewrite A. discriminate.
        * intros tk' Hg'. destruct U' as (A & _). rewrite A in Hg'. inversion Hg'; subst. split; [reflexivity|]. exists tk. split; [exact Hg|reflexivity].
    - split; [apply (deps_ok_step root s); [exact Hroot|exact HD|apply deps_step_view; reflexivity]|].
      apply (pass_ok_unrun S t rest0 s s1 HPk Hts0 Har); try reflexivity; auto.
      intros tk' Hg'. change (get t s1) with (get t s) in Hg'. congruence.
    - split; [apply (deps_ok_step root s); [exact Hroot|exact HD|apply deps_step_view; reflexivity]|].
      apply (pass_ok_unrun S t rest0 s s1 HPk Hts0 Har); try reflexivity; auto.
      intros tk' Hg'. change (get t s1) with (get t s) in Hg'. congruence.
    - split; [apply (deps_ok_step root s); [exact Hroot|exact HD|apply deps_step_view; reflexivity]|].
      apply (pass_ok_unrun S t rest0 s s1 HPk Hts0 Har); try reflexivity; auto.
      intros tk' Hg'. change (get t s1) with (get t s) in Hg'. congruence.
    - split; [apply (deps_ok_step root s); [exact Hroot|exact HD|apply deps_step_view; reflexivity]|].
      apply (pass_ok_unrun S t rest0 s s1 HPk Hts0 Har); try reflexivity; auto.
      intros tk' Hg'. change (get t s1) with (get t s) in Hg'. congruence.
  Qed.

  Theorem dl_step spec S c : is_unwind (c_mode c) = false -> DL spec S c -> exists spec' S', DL spec' S' (step P c).
  Proof.
    destruct c as [m fr s]. destruct m; cbn [c_mode is_unwind]; intros Hu HI; try discriminate.
    - exists spec, S. apply dl_MValue; exact HI.
    - destruct (dl_MWaitHead spec S fr s HI) as (S' & H & _). exists spec, S'. exact H.
    - exists spec, S. apply dl_MAfterExec; exact HI.
    - destruct (dl_MExecLoop spec S fr s HI) as (S' & H & _). exists spec, S'. exact H.
    - exists spec, S. apply dl_MResume; exact HI.
    - destruct (dl_MRun spec S _ _ fr s HI) as (spec' & H). exists spec', S. exact H.
    - exists spec, S. apply dl_MContRet; exact HI.
    - exists spec, S. apply dl_MDeliver; exact HI.
    - exists spec, S. exact HI.
    - exists spec, S. exact HI.
  Qed.

  Theorem dl_run n : forall spec S c, DL spec S c -> no_unwind P n c -> exists spec' S', DL spec' S' (run P n c).
  Proof.
    induction n as [|n IH]; intros spec S c HI Hn; [exists spec, S; exact HI|].
    rewrite run_S. destruct (is_final (c_mode c)) eqn:Hf; [exists spec, S; exact HI|].
    destruct (dl_step spec S c) as (spec1 & S1 & HI1); [apply (Hn O); lia|exact HI|].
    apply (IH spec1 S1); [exact HI1|].
    intros k Hk. specialize (Hn (Datatypes.S k) ltac:(lia)). rewrite run_S, Hf in Hn. exact Hn.
  Qed.

End C04.

(* ------------------------------------------------------------------ C04 theorems (tree programs) *)
(* d is reachable from x through the dependency lists of uncompleted tasks *)
Inductive reach (s : st) (x : fid) : fid -> Prop :=
| reach_refl : reach s x x
| reach_dep y tk z : reach s x y -> get y s = Some (mkFut None (KTask tk)) -> In z (tk_deps tk) -> reach s x z.

Section C04_theorems.
  Variable P : params.
  Hypothesis HP : pointwise P.
  Variable p : prog.
  Hypothesis Ht : tree p.

  Let h := fst (create [] (FTask p) (st0 P)).
  Let s1 := snd (create [] (FTask p) (st0 P)).

  Lemma dl_reach n : no_unwind P n (start h s1) -> exists spec S, DL h (eval p) spec S (run P n (start h s1)).
  Proof.
    intros Hn.
    pose proof (SInv_create (fun _ => None) None [] (FTask p) (st0 P) (SInv_empty P) (tf_task p Ht)) as HC.
    cbn zeta in HC. fold h s1 in HC. destruct HC as (_ & HS1 & Hnew & _).
    assert (Hg : is_task h s1) by (unfold h, s1, create, alloc; cbn; eexists _, _; apply get_put_same).
    assert (HI : CInv h (eval p) (spec_add (fun _ => None) h (eval p)) (start h s1)).
    { apply CInv_intro; [unfold spec_add; rewrite fid_eqb_refl; reflexivity|reflexivity|exact HS1|exact Hg|reflexivity]. }
    assert (HFL : FL h (eval p) (spec_add (fun _ => None) h (eval p)) (start h s1)).
    { split; [exact HI|]. cbn. split; [|reflexivity].
      pose proof (flags_create [] (FTask p) (st0 P)) as HF. fold s1 in HF. apply HF.
      intros u tk Hgu. discriminate. }
    assert (Hent : forall u o tk, get u s1 = Some (mkFut o (KTask tk)) -> tk_deps tk = [] /\ tk_iter tk = 0%Z).
    { intros u o tk Hgu. unfold s1, create, alloc in Hgu. cbn in Hgu. destruct (fid_eqb u [top_next (st0 P)]) eqn:E.
      - apply fid_eqb_eq in E. subst u. rewrite get_put_same in Hgu. inversion Hgu. split; reflexivity.
      - assert (N : u <> [top_next (st0 P)]) by (intros ->; rewrite fid_eqb_refl in E; discriminate).
        rewrite get_put_other in Hgu by exact N. discriminate. }
    assert (HD : deps_ok h s1).
    { constructor.
      - intros u o tk d Hgu Hin. destruct (Hent u o tk Hgu) as [E _]. rewrite E in Hin. destruct Hin.
      - intros u u' tk tk' d Hgu _ Hin. destruct (Hent u None tk Hgu) as [E _]. rewrite E in Hin. destruct Hin.
      - intros u tk Hgu. destruct (Hent u None tk Hgu) as [E _]. rewrite E. constructor.
      - intros u o tk Hgu Hin. destruct (Hent u o tk Hgu) as [E _]. rewrite E in Hin. destruct Hin.
      - intros u tk Hgu Hne. destruct (Hent u None tk Hgu) as [E _]. congruence.
      - intros u o tk Hgu. destruct (Hent u o tk Hgu) as [_ E]. rewrite E. lia. }
    apply (dl_run P HP h (eval p) n (spec_add (fun _ => None) h (eval p)) (fun _ => False) (start h s1)); [|exact Hn].
    split; [exact HFL|]. cbn. split; [exact HD|exact I].
  Qed.

  (* Whenever the scheduler is about to flush a batch (the _execute pass has ended and the awaited task
     is not computed), there is a set S of stuck futures containing the awaited task such that every
     task in S has started, waits for an uncomputed member of S, and has no dependency outside S that is
     not computed; the other members of S are uncomputed batch items. *)
  Theorem flush_only_when_stuck_tree n :
    no_unwind P n (start h s1) -> c_mode (run P n (start h s1)) = MAfterExec ->
    computed h (c_st (run P n (start h s1))) = false ->
    exists S : fid -> Prop, S h /\ forall d, S d -> S_ok S (c_st (run P n (start h s1))) d.
  Proof.
    intros Hn Hm Hc. destruct (dl_reach n Hn) as (spec & S & (_ & HDL)).
    destruct (run P n (start h s1)) as [m fr s]. cbn [c_mode c_st] in *. subst m.
    destruct HDL as (_ & [Hc'|HS]); [congruence|]. exists S. exact HS.
  Qed.

  (* consequence: everything reachable from the awaited task through uncompleted tasks is computed or stuck;
     in particular no reachable task is unstarted or runnable *)
  Theorem reachable_is_computed_or_stuck_tree n :
    no_unwind P n (start h s1) -> c_mode (run P n (start h s1)) = MAfterExec ->
    computed h (c_st (run P n (start h s1))) = false ->
    forall d, reach (c_st (run P n (start h s1))) h d ->
      computed d (c_st (run P n (start h s1))) = true \/
      (exists kind idx key a, get d (c_st (run P n (start h s1))) = Some (mkFut None (KItem kind idx key a))) \/
      (exists tk, get d (c_st (run P n (start h s1))) = Some (mkFut None (KTask tk)) /\ (1 <= tk_iter tk)%Z /\
                  is_blocked tk (c_st (run P n (start h s1))) = true).
  Proof.
    intros Hn Hm Hc. destruct (flush_only_when_stuck_tree n Hn Hm Hc) as (S & HSh & HS).
    set (s := c_st (run P n (start h s1))) in *.
    assert (Hmem : forall d, reach s h d -> computed d s = true \/ S d).
    { intros d Hr. induction Hr as [|y tk z Hr IH Hg Hin]; [right; exact HSh|].
      destruct IH as [Hcy|HSy]; [unfold computed in Hcy; rewrite Hg in Hcy; discriminate|].
      destruct (HS y HSy) as [(tk0 & Hg0 & _ & _ & Hall)|(kind & idx & key & a & Hg0)]; [|congruence].
      rewrite Hg in Hg0. inversion Hg0; subst tk0. apply Hall. exact Hin. }
    intros d Hr. destruct (Hmem d Hr) as [Hcd|HSd]; [left; exact Hcd|right].
    destruct (HS d HSd) as [(tk & Hg & Hi & (e & He & HSe) & _)|Hitem]; [right|left; exact Hitem].
    exists tk. split; [exact Hg|]. split; [exact Hi|]. unfold is_blocked. apply existsb_exists. exists e. split; [exact He|].
    destruct (HS e HSe) as [(tke & Hge & _)|(kind & idx & key & a & Hge)]; unfold computed; rewrite Hge; reflexivity.
  Qed.
End C04_theorems.
