(* C04 on the scheduler machine (tree programs): a batch is flushed only when every uncompleted task
   reachable from the awaited computation has started and is stuck - blocked, directly or through other
   stuck tasks, on batch items whose batch is still pending and known to the scheduler.

   Route: a ghost set S of futures "settled in this _execute pass".  Members of S are never on the task
   stack; a settled task has started, has an uncomputed dependency in S and all its dependencies are
   computed or in S; a settled item belongs to a pending scheduled batch.  A grey stack entry (its
   dependencies are scheduled) has every dependency computed, settled or above it on the stack.  When
   the pass ends the root is computed or settled.  (A settled item is an item that is still uncomputed;
   that a flush computes every item of the flushed batch is C05_flush_answers_every_item.) *)
From Asynq Require Import Machine Seq proofs.ProgProofs proofs.MachineFrame proofs.MachineC05 proofs.MachineC08
     proofs.MachineC01 proofs.MachineDFS.

Definition Sset := fid -> Prop.

Definition uncomputed (s : st) (d : fid) : Prop := computed d s = false.

(* what it means to be settled *)
Definition S_ok (S : Sset) (s : st) (d : fid) : Prop :=
  (exists tk, get d s = Some (mkFut None (KTask tk)) /\ (1 <= tk_iter tk)%Z /\
              (exists e, In e (tk_deps tk) /\ S e) /\
              (forall e, In e (tk_deps tk) -> computed e s = true \/ S e)) \/
  (exists kind idx key a, get d s = Some (mkFut None (KItem kind idx key a))).

(* the dependency facts about task entries that the pass relies on (tree structure) *)
Record deps_ok (root : fid) (s : st) : Prop := {
  dk_alloc : forall p o tk d, get p s = Some (mkFut o (KTask tk)) -> In d (tk_deps tk) -> get d s <> None;
  dk_disj : forall p p' tk tk' d, get p s = Some (mkFut None (KTask tk)) -> get p' s = Some (mkFut None (KTask tk')) ->
              In d (tk_deps tk) -> In d (tk_deps tk') -> computed d s = false -> p = p';
  dk_nodup : forall p tk, get p s = Some (mkFut None (KTask tk)) -> NoDup (filter (fun d => negb (computed d s)) (tk_deps tk));
  dk_root : forall p o tk, get p s = Some (mkFut o (KTask tk)) -> ~ In root (tk_deps tk);
  dk_iter : forall p tk, get p s = Some (mkFut None (KTask tk)) -> tk_deps tk <> [] -> (1 <= tk_iter tk)%Z;
  dk_iter0 : forall p o tk, get p s = Some (mkFut o (KTask tk)) -> (0 <= tk_iter tk)%Z
}.

Record pass_ok (root : fid) (S : Sset) (running : option fid) (s : st) : Prop := {
  pk_off : forall d, S d -> ~ In d (tasks s);
  pk_ok : forall d, S d -> S_ok S s d;
  pk_grey : forall above x below tk, tasks s = above ++ x :: below ->
              get x s = Some (mkFut None (KTask tk)) -> tk_ds tk = true -> running <> Some x ->
              forall e, In e (tk_deps tk) -> computed e s = true \/ S e \/ In e above;
  pk_white : forall u tk, get u s = Some (mkFut None (KTask tk)) -> tk_ds tk = false -> running <> Some u -> ~ S u ->
              forall e, In e (tk_deps tk) -> computed e s = false -> ~ S e /\ ~ In e (tasks s);
  pk_nodup : NoDup (tasks s);
  pk_alloc : forall d, In d (tasks s) -> get d s <> None;
  pk_bottom : tasks s = [] \/ exists above, tasks s = above ++ [root];
  pk_end : tasks s = [] -> computed root s = true \/ S root
}.

(* ------------------------------------------------------------------ ids created by a yield expression *)
Lemma create_id parent f s :
  fst (create parent f s) = [top_next s] /\ top_next (snd (create parent f s)) = (top_next s + 1)%Z.
Proof. unfold create, alloc. destruct f; cbn; auto. Qed.

Lemma futs_app a b : futs (a ++ b) = futs a ++ futs b.
Proof. unfold futs. apply flat_map_app. Qed.

Definition ids_in (lo hi : Z) (l : list fid) : Prop := forall h, In h l -> exists n, h = [n] /\ (lo <= n < hi)%Z.

Lemma NoDup_app_ranges lo mid hi a b :
  NoDup a -> NoDup b -> ids_in lo mid a -> ids_in mid hi b -> NoDup (a ++ b).
Proof.
  intros Na Nb Ia Ib. induction Na as [|x a Hx Na IH]; [exact Nb|]. simpl. constructor.
  - intros Hin. apply in_app_or in Hin as [Hin|Hin]; [contradiction|].
    destruct (Ia x (or_introl eq_refl)) as (n & -> & Hn). destruct (Ib _ Hin) as (m & E & Hm). inversion E. lia.
  - apply IH. intros h Hh. apply Ia. right. exact Hh.
Qed.

Lemma inst_ids parent (y : ystruct leaf) : forall s,
  (forall l, In l (leaves y) -> tree_leaf l) ->
  (top_next s <= top_next (snd (inst parent y s)))%Z /\
  ids_in (top_next s) (top_next (snd (inst parent y s))) (futs (leaves (fst (inst parent y s)))) /\
  NoDup (futs (leaves (fst (inst parent y s)))).
Proof.
  induction y as [| a | l IH | l IH | l IH] using ystruct_ind2; intros s Ht.
  - cbn. split; [lia|]. split; [intros h []|constructor].
  - destruct a as [f|h|].
    + cbn [inst]. pose proof (create_id parent f s) as [E1 E2]. destruct (create parent f s) as [h s1]. cbn [fst snd] in *.
      subst h. rewrite E2. cbn. split; [lia|]. split.
      * intros h [<-|[]]. exists (top_next s). split; [reflexivity|lia].
      * constructor; [intros []|constructor].
    + specialize (Ht (LOld h) (or_introl eq_refl)). inversion Ht.
    + cbn. split; [lia|]. split; [intros h []|constructor].
  - cbn [inst]. match goal with |- context [(?g l s)] => set (go := g) end.
    assert (HL : forall s0, (forall x, In x (flat_map leaves l) -> tree_leaf x) ->
              (top_next s0 <= top_next (snd (go l s0)))%Z /\
              ids_in (top_next s0) (top_next (snd (go l s0))) (futs (flat_map leaves (fst (go l s0)))) /\
              NoDup (futs (flat_map leaves (fst (go l s0))))).
    { clear s Ht. induction IH as [|x l Hx Hl IHl]; intros s0 Ht0.
      - cbn. split; [lia|]. split; [intros h []|constructor].
      - cbn [go]. cbn [flat_map] in Ht0.
        destruct (Hx s0) as (L1 & I1 & N1); [intros z Hz; apply Ht0, in_or_app; auto|].
        destruct (inst parent x s0) as [x' s1]. cbn [fst snd] in *.
        destruct (IHl s1) as (L2 & I2 & N2); [intros z Hz; apply Ht0, in_or_app; auto|].
        fold go. destruct (go l s1) as [l'' s2]. cbn [fst snd flat_map] in *. rewrite futs_app.
        split; [lia|]. split.
        + intros h Hh. apply in_app_or in Hh as [Hh|Hh].
          * destruct (I1 h Hh) as (n & -> & Hn). exists n. split; [reflexivity|lia].
          * destruct (I2 h Hh) as (n & -> & Hn). exists n. split; [reflexivity|lia].
        + apply (NoDup_app_ranges (top_next s0) (top_next s1) (top_next s2)); auto. }
    destruct (HL s) as (L & I & N); [rewrite <- leaves_tuple; exact Ht|].
    destruct (go l s) as [l' s1]. cbn [fst snd] in *. rewrite leaves_tuple. auto.
  - cbn [inst]. match goal with |- context [(?g l s)] => set (go := g) end.
    assert (HL : forall s0, (forall x, In x (flat_map leaves l) -> tree_leaf x) ->
              (top_next s0 <= top_next (snd (go l s0)))%Z /\
              ids_in (top_next s0) (top_next (snd (go l s0))) (futs (flat_map leaves (fst (go l s0)))) /\
              NoDup (futs (flat_map leaves (fst (go l s0))))).
    { clear s Ht. induction IH as [|x l Hx Hl IHl]; intros s0 Ht0.
      - cbn. split; [lia|]. split; [intros h []|constructor].
      - cbn [go]. cbn [flat_map] in Ht0.
        destruct (Hx s0) as (L1 & I1 & N1); [intros z Hz; apply Ht0, in_or_app; auto|].
        destruct (inst parent x s0) as [x' s1]. cbn [fst snd] in *.
        destruct (IHl s1) as (L2 & I2 & N2); [intros z Hz; apply Ht0, in_or_app; auto|].
        fold go. destruct (go l s1) as [l'' s2]. cbn [fst snd flat_map] in *. rewrite futs_app.
        split; [lia|]. split.
        + intros h Hh. apply in_app_or in Hh as [Hh|Hh].
          * destruct (I1 h Hh) as (n & -> & Hn). exists n. split; [reflexivity|lia].
          * destruct (I2 h Hh) as (n & -> & Hn). exists n. split; [reflexivity|lia].
        + apply (NoDup_app_ranges (top_next s0) (top_next s1) (top_next s2)); auto. }
    destruct (HL s) as (L & I & N); [rewrite <- leaves_ylist; exact Ht|].
    destruct (go l s) as [l' s1]. cbn [fst snd] in *. rewrite leaves_ylist. auto.
  - cbn [inst]. match goal with |- context [(?g l s)] => set (go := g) end.
    assert (HL : forall s0, (forall x, In x (flat_map (fun kv => leaves (snd kv)) l) -> tree_leaf x) ->
              (top_next s0 <= top_next (snd (go l s0)))%Z /\
              ids_in (top_next s0) (top_next (snd (go l s0))) (futs (flat_map (fun kv => leaves (snd kv)) (fst (go l s0)))) /\
              NoDup (futs (flat_map (fun kv => leaves (snd kv)) (fst (go l s0))))).
    { clear s Ht. induction IH as [|[k x] l Hx Hl IHl]; intros s0 Ht0.
      - cbn. split; [lia|]. split; [intros h []|constructor].
      - cbn [go]. cbn [flat_map snd] in Ht0. cbn [snd] in Hx.
        destruct (Hx s0) as (L1 & I1 & N1); [intros z Hz; apply Ht0, in_or_app; auto|].
        destruct (inst parent x s0) as [x' s1]. cbn [fst snd] in *.
        destruct (IHl s1) as (L2 & I2 & N2); [intros z Hz; apply Ht0, in_or_app; auto|].
        fold go. destruct (go l s1) as [l'' s2]. cbn [fst snd flat_map] in *. rewrite futs_app.
        split; [lia|]. split.
        + intros h Hh. apply in_app_or in Hh as [Hh|Hh].
          * destruct (I1 h Hh) as (n & -> & Hn). exists n. split; [reflexivity|lia].
          * destruct (I2 h Hh) as (n & -> & Hn). exists n. split; [reflexivity|lia].
        + apply (NoDup_app_ranges (top_next s0) (top_next s1) (top_next s2)); auto. }
    destruct (HL s) as (L & I & N); [rewrite <- leaves_ydict; exact Ht|].
    destruct (go l s) as [l' s1]. cbn [fst snd] in *. rewrite leaves_ydict. auto.
Qed.

(* ------------------------------------------------------------------ Layer A: the dependency facts are preserved *)
Definition deps_step (s s' : st) : Prop :=
  (forall d, get d s <> None -> get d s' <> None) /\
  (forall d, computed d s = true -> computed d s' = true) /\
  (forall p o' tk', get p s' = Some (mkFut o' (KTask tk')) ->
     (get p s = None /\ tk_deps tk' = [] /\ (0 <= tk_iter tk')%Z) \/
     (exists o tk, get p s = Some (mkFut o (KTask tk)) /\ (o' = None -> o = None) /\
        (tk_deps tk' = tk_deps tk \/ tk_deps tk' = []) /\ (tk_iter tk <= tk_iter tk')%Z)).

Lemma deps_step_refl s : deps_step s s.
Proof.
  split; [auto|]. split; [auto|]. intros p o' tk' Hg. right. exists o', tk'. repeat split; auto. lia.
Qed.

Lemma deps_step_trans a b c : deps_step a b -> deps_step b c -> deps_step a c.
Proof.
  intros (A1 & A2 & A3) (B1 & B2 & B3). split; [auto|]. split; [auto|].
  intros p o' tk' Hg. destruct (B3 p o' tk' Hg) as [(N & D & I)|(o & tk & Hb & Ho & Hd & Hi)].
  - left. split; [|auto]. destruct (get p a) eqn:E; [|reflexivity]. exfalso. apply (A1 p); [rewrite E; discriminate|exact N].
  - destruct (A3 p o tk Hb) as [(N & D & I)|(o0 & tk0 & Ha & Ho0 & Hd0 & Hi0)].
    + left. split; [exact N|]. split; [destruct Hd as [Hd|Hd]; congruence|lia].
    + right. exists o0, tk0. split; [exact Ha|]. split; [auto|]. split; [|lia].
      destruct Hd as [Hd|Hd]; [rewrite Hd; exact Hd0|right; exact Hd].
Qed.

Lemma deps_step_view s s' : heap s' = heap s -> deps_step s s'.
Proof.
  intros Hh. assert (G : forall h, get h s' = get h s) by (intros h; unfold get; rewrite Hh; reflexivity).
  split; [intros d; rewrite G; auto|]. split; [intros d; unfold computed; rewrite G; auto|].
  intros p o' tk' Hg. rewrite G in Hg. right. exists o', tk'. repeat split; auto. lia.
Qed.

(* the entry of x is replaced by a task entry with the same or emptied dependencies *)
Lemma deps_step_upd s s' x o tk o' tk' :
  get x s = Some (mkFut o (KTask tk)) -> upd_entry s s' x (mkFut o' (KTask tk')) ->
  (o' = None -> o = None) -> (tk_deps tk' = tk_deps tk \/ tk_deps tk' = []) -> (tk_iter tk <= tk_iter tk')%Z ->
  deps_step s s'.
Proof.
  intros Hg U Ho Hd Hi. pose proof (upd_entry_dom _ _ _ _ _ Hg U) as Dom. destruct U as (A & B & _).
  split; [intros d Hd0; apply Dom; exact Hd0|]. split.
  - intros d Hc. unfold computed in *. destruct (fid_eqb d x) eqn:E.
    + apply fid_eqb_eq in E. subst d. rewrite A. rewrite Hg in Hc. cbn in *. destruct o; [|discriminate].
      destruct o'; [reflexivity|]. specialize (Ho eq_refl). discriminate.
    + assert (d <> x) by (intros ->; rewrite fid_eqb_refl in E; discriminate). rewrite B by assumption. exact Hc.
  - intros p o2 tk2 Hg2. right. destruct (fid_eqb p x) eqn:E.
    + apply fid_eqb_eq in E. subst p. rewrite A in Hg2. inversion Hg2; subst. exists o, tk. auto.
    + assert (p <> x) by (intros ->; rewrite fid_eqb_refl in E; discriminate). rewrite B in Hg2 by assumption.
      exists o2, tk2. repeat split; auto. lia.
Qed.

(* an entry that is not a task changes (an item or lazy future gets its outcome) *)
Lemma deps_step_nontask s s' x f f' :
  get x s = Some f -> (forall tk, f_kind f <> KTask tk) -> (forall tk, f_kind f' <> KTask tk) ->
  (f_out f <> None -> f_out f' <> None) -> upd_entry s s' x f' -> deps_step s s'.
Proof.
  intros Hg Hk Hk' Ho U. pose proof (upd_entry_dom _ _ _ _ _ Hg U) as Dom. destruct U as (A & B & _).
  split; [intros d Hd0; apply Dom; exact Hd0|]. split.
  - intros d Hc. unfold computed in *. destruct (fid_eqb d x) eqn:E.
    + apply fid_eqb_eq in E. subst d. rewrite A. rewrite Hg in Hc. destruct (f_out f) eqn:E1; [|discriminate].
      destruct (f_out f') eqn:E2; [reflexivity|]. exfalso. apply Ho; [discriminate|reflexivity].
    + assert (d <> x) by (intros ->; rewrite fid_eqb_refl in E; discriminate). rewrite B by assumption. exact Hc.
  - intros p o2 tk2 Hg2. right. destruct (fid_eqb p x) eqn:E.
    + apply fid_eqb_eq in E. subst p. rewrite A in Hg2. inversion Hg2; subst. destruct (Hk' tk2 eq_refl).
    + assert (p <> x) by (intros ->; rewrite fid_eqb_refl in E; discriminate). rewrite B in Hg2 by assumption.
      exists o2, tk2. repeat split; auto. lia.
Qed.

Lemma NoDup_filter_weaken {A} (f g : A -> bool) (l : list A) :
  (forall x, g x = true -> f x = true) -> NoDup (filter f l) -> NoDup (filter g l).
Proof.
  intros H. induction l as [|x l IH]; [auto|]. cbn. destruct (g x) eqn:Eg.
  - rewrite (H x Eg). intros N. inversion N; subst. constructor; [|auto].
    intros Hin. apply filter_In in Hin as [Hin Hgx]. apply H2. apply filter_In. split; [exact Hin|apply H; exact Hgx].
  - destruct (f x); intros N; [inversion N; auto|auto].
Qed.

Lemma deps_ok_step root s s' : get root s <> None -> deps_ok root s -> deps_step s s' -> deps_ok root s'.
Proof.
  intros Hroot [K1 K2 K3 K4 K5 K6] (D1 & D2 & D3).
  assert (Hunc : forall d, computed d s' = false -> computed d s = false).
  { intros d H. destruct (computed d s) eqn:E; [|reflexivity]. rewrite (D2 d E) in H. discriminate. }
  constructor.
  - intros p o tk d Hg Hin. destruct (D3 p o tk Hg) as [(_ & E & _)|(o0 & tk0 & Hg0 & _ & Hd & _)]; [rewrite E in Hin; destruct Hin|].
    destruct Hd as [Hd|Hd]; [|rewrite Hd in Hin; destruct Hin]. rewrite Hd in Hin. apply D1. apply (K1 p o0 tk0 d Hg0 Hin).
  - intros p p' tk tk' d Hg Hg' Hin Hin' Hc.
    destruct (D3 p None tk Hg) as [(_ & E & _)|(o0 & tk0 & Hg0 & Ho0 & Hd & _)]; [rewrite E in Hin; destruct Hin|].
    destruct (D3 p' None tk' Hg') as [(_ & E & _)|(o1 & tk1 & Hg1 & Ho1 & Hd1 & _)]; [rewrite E in Hin'; destruct Hin'|].
    destruct Hd as [Hd|Hd]; [|rewrite Hd in Hin; destruct Hin]. destruct Hd1 as [Hd1|Hd1]; [|rewrite Hd1 in Hin'; destruct Hin'].
    rewrite Hd in Hin. rewrite Hd1 in Hin'. rewrite (Ho0 eq_refl) in Hg0. rewrite (Ho1 eq_refl) in Hg1.
    apply (K2 p p' tk0 tk1 d Hg0 Hg1 Hin Hin' (Hunc d Hc)).
  - intros p tk Hg. destruct (D3 p None tk Hg) as [(_ & E & _)|(o0 & tk0 & Hg0 & Ho0 & Hd & _)]; [rewrite E; constructor|].
    destruct Hd as [Hd|Hd]; [|rewrite Hd; constructor]. rewrite Hd. rewrite (Ho0 eq_refl) in Hg0.
    apply (NoDup_filter_weaken (fun d => negb (computed d s))); [|apply (K3 p tk0 Hg0)].
    intros x Hx. apply negb_true_iff in Hx. apply negb_true_iff. apply Hunc. exact Hx.
  - intros p o tk Hg Hin. destruct (D3 p o tk Hg) as [(_ & E & _)|(o0 & tk0 & Hg0 & _ & Hd & _)]; [rewrite E in Hin; destruct Hin|].
    destruct Hd as [Hd|Hd]; [|rewrite Hd in Hin; destruct Hin]. rewrite Hd in Hin. apply (K4 p o0 tk0 Hg0 Hin).
  - intros p tk Hg Hne. destruct (D3 p None tk Hg) as [(_ & E & _)|(o0 & tk0 & Hg0 & Ho0 & Hd & Hi)]; [congruence|].
    destruct Hd as [Hd|Hd]; [|congruence]. rewrite (Ho0 eq_refl) in Hg0. rewrite Hd in Hne. pose proof (K5 p tk0 Hg0 Hne). lia.
  - intros p o tk Hg. destruct (D3 p o tk Hg) as [(_ & _ & I)|(o0 & tk0 & Hg0 & _ & _ & Hi)]; [exact I|].
    pose proof (K6 p o0 tk0 Hg0). lia.
Qed.

(* creating futures only adds entries; a new task entry has no dependencies yet *)
Lemma deps_step_create parent f s : get [top_next s] s = None -> deps_step s (snd (create parent f s)) /\
  (forall h, get h s <> None -> get h (snd (create parent f s)) = get h s).
Proof.
  intros Hfresh. unfold create, alloc. cbn zeta. set (h := [top_next s]) in *. set (s0 := with_top_next s (top_next s + 1)).
  assert (Hgen : forall e s1, (forall x, x <> h -> get x s1 = get x s) -> get h s1 = Some e ->
            (forall o tk, e = mkFut o (KTask tk) -> tk_deps tk = [] /\ (0 <= tk_iter tk)%Z) ->
            deps_step s s1 /\ (forall x, get x s <> None -> get x s1 = get x s)).
  { intros e s1 Hoth Hnew He.
    assert (Hold : forall x, get x s <> None -> get x s1 = get x s).
    { intros x Hx. apply Hoth. intros ->. congruence. }
    split; [|exact Hold]. split; [intros d Hd; rewrite Hold; auto|]. split.
    - intros d Hc. unfold computed in *. destruct (get d s) eqn:E; [|discriminate]. rewrite Hold; [rewrite E; exact Hc|rewrite E; discriminate].
    - intros p o' tk' Hg. destruct (fid_eqb p h) eqn:E.
      + apply fid_eqb_eq in E. subst p. left. rewrite Hnew in Hg. inversion Hg; subst e. destruct (He o' tk' eq_refl). auto.
      + assert (p <> h) by (intros ->; rewrite fid_eqb_refl in E; discriminate). rewrite Hoth in Hg by assumption.
        right. exists o', tk'. repeat split; auto. lia. }
  destruct f as [q|kind key a|v|e|o]; cbn [snd].
  - apply (Hgen (mkFut None (KTask (fresh_task q)))).
    + intros x N. rewrite get_put_other by exact N. reflexivity.
    + apply get_put_same.
    + intros o tk E. inversion E. cbn. split; [reflexivity|lia].
  - apply (Hgen (mkFut None (KItem kind (cur_idx kind s0) key a))).
    + intros x N. change (get x (put_batch ?k ?b ?z)) with (get x z). rewrite get_put_other by exact N. reflexivity.
    + change (get h (put_batch ?k ?b ?z)) with (get h z). apply get_put_same.
    + intros o tk E. discriminate.
  - apply (Hgen (mkFut (Some (Ok v)) KOther)).
    + intros x N. rewrite get_put_other by exact N. reflexivity.
    + apply get_put_same.
    + intros o tk E. discriminate.
  - apply (Hgen (mkFut (Some (Err e)) KOther)).
    + intros x N. rewrite get_put_other by exact N. reflexivity.
    + apply get_put_same.
    + intros o tk E. discriminate.
  - apply (Hgen (mkFut None (KLazy o))).
    + intros x N. rewrite get_put_other by exact N. reflexivity.
    + apply get_put_same.
    + intros o0 tk E. discriminate.
Qed.

Definition grow (s s' : st) : Prop :=
  deps_step s s' /\ (forall h, get h s <> None -> get h s' = get h s).

Lemma grow_refl s : grow s s. Proof. split; [apply deps_step_refl|auto]. Qed.
Lemma grow_trans a b c : grow a b -> grow b c -> grow a c.
Proof.
  intros (A1 & A2) (B1 & B2). split; [eapply deps_step_trans; eauto|].
  intros h Hh. rewrite B2, A2; auto. rewrite A2; auto.
Qed.

Lemma grow_inst spec r parent (y : ystruct leaf) : forall s, SInv spec r s -> (forall l, In l (leaves y) -> tree_leaf l) ->
  grow s (snd (inst parent y s)).
Proof.
  intros s HS Ht. revert spec s HS Ht.
  induction y as [| a | l IH | l IH | l IH] using ystruct_ind2; intros spec s HS Ht.
  - apply grow_refl.
  - destruct a as [f|h|]; cbn [inst]; try apply grow_refl.
    pose proof (deps_step_create parent f s (fresh_id _ _ _ HS)) as H. destruct (create parent f s). exact H.
  - cbn [inst]. match goal with |- context [(?g l s)] => set (go := g) end.
    assert (HL : forall spec0 s0, SInv spec0 r s0 -> (forall x, In x (flat_map leaves l) -> tree_leaf x) -> grow s0 (snd (go l s0))).
    { clear spec s HS Ht. induction IH as [|x l Hx Hl IHl]; intros spec0 s0 HS0 Ht0; [apply grow_refl|].
      cbn [go]. cbn [flat_map] in Ht0.
      assert (Htx : forall z, In z (leaves x) -> tree_leaf z) by (intros z Hz; apply Ht0, in_or_app; auto).
      pose proof (Hx spec0 s0 HS0 Htx) as G1.
      destruct (SInv_inst r parent x spec0 s0 HS0 Htx) as (spec1 & (_ & HS1 & _) & _).
      destruct (inst parent x s0) as [x' s1]. cbn [fst snd] in *.
      assert (G2 : grow s1 (snd (go l s1))) by (apply (IHl spec1 s1 HS1); intros z Hz; apply Ht0, in_or_app; auto).
      fold go. destruct (go l s1) as [l'' s2]. cbn [snd] in *. eapply grow_trans; eauto. }
    specialize (HL spec s HS). destruct (go l s) as [l' s1]. cbn [snd] in *. apply HL. rewrite <- leaves_tuple. exact Ht.
  - cbn [inst]. match goal with |- context [(?g l s)] => set (go := g) end.
    assert (HL : forall spec0 s0, SInv spec0 r s0 -> (forall x, In x (flat_map leaves l) -> tree_leaf x) -> grow s0 (snd (go l s0))).
    { clear spec s HS Ht. induction IH as [|x l Hx Hl IHl]; intros spec0 s0 HS0 Ht0; [apply grow_refl|].
      cbn [go]. cbn [flat_map] in Ht0.
      assert (Htx : forall z, In z (leaves x) -> tree_leaf z) by (intros z Hz; apply Ht0, in_or_app; auto).
      pose proof (Hx spec0 s0 HS0 Htx) as G1.
      destruct (SInv_inst r parent x spec0 s0 HS0 Htx) as (spec1 & (_ & HS1 & _) & _).
      destruct (inst parent x s0) as [x' s1]. cbn [fst snd] in *.
      assert (G2 : grow s1 (snd (go l s1))) by (apply (IHl spec1 s1 HS1); intros z Hz; apply Ht0, in_or_app; auto).
      fold go. destruct (go l s1) as [l'' s2]. cbn [snd] in *. eapply grow_trans; eauto. }
    specialize (HL spec s HS). destruct (go l s) as [l' s1]. cbn [snd] in *. apply HL. rewrite <- leaves_ylist. exact Ht.
  - cbn [inst]. match goal with |- context [(?g l s)] => set (go := g) end.
    assert (HL : forall spec0 s0, SInv spec0 r s0 -> (forall x, In x (flat_map (fun kv => leaves (snd kv)) l) -> tree_leaf x) -> grow s0 (snd (go l s0))).
    { clear spec s HS Ht. induction IH as [|[k x] l Hx Hl IHl]; intros spec0 s0 HS0 Ht0; [apply grow_refl|].
      cbn [go]. cbn [flat_map snd] in Ht0. cbn [snd] in Hx.
      assert (Htx : forall z, In z (leaves x) -> tree_leaf z) by (intros z Hz; apply Ht0, in_or_app; auto).
      pose proof (Hx spec0 s0 HS0 Htx) as G1.
      destruct (SInv_inst r parent x spec0 s0 HS0 Htx) as (spec1 & (_ & HS1 & _) & _).
      destruct (inst parent x s0) as [x' s1]. cbn [fst snd] in *.
      assert (G2 : grow s1 (snd (go l s1))) by (apply (IHl spec1 s1 HS1); intros z Hz; apply Ht0, in_or_app; auto).
      fold go. destruct (go l s1) as [l'' s2]. cbn [snd] in *. eapply grow_trans; eauto. }
    specialize (HL spec s HS). destruct (go l s) as [l' s1]. cbn [snd] in *. apply HL. rewrite <- leaves_ydict. exact Ht.
Qed.

(* ------------------------------------------------------------------ Layer B: the pass invariant *)
(* a transition made while task t runs: only t's entry changes, new entries may appear, stack untouched *)
Definition frame_t (t : fid) (s s' : st) : Prop :=
  tasks s' = tasks s /\ deps_step s s' /\ (forall h, h <> t -> get h s <> None -> get h s' = get h s).

Lemma frame_t_refl t s : frame_t t s s.
Proof. split; [reflexivity|]. split; [apply deps_step_refl|auto]. Qed.

Lemma frame_t_trans t a b c : frame_t t a b -> frame_t t b c -> frame_t t a c.
Proof.
  intros (A1 & A2 & A3) (B1 & B2 & B3). split; [congruence|]. split; [eapply deps_step_trans; eauto|].
  intros h N Hh. rewrite B3, A3; auto. rewrite A3; auto.
Qed.

Lemma unc_mono s s' : deps_step s s' -> forall d, computed d s' = false -> computed d s = false.
Proof. intros (_ & M & _) d H. destruct (computed d s) eqn:E; [rewrite (M d E) in H; discriminate|reflexivity]. Qed.

Lemma S_ok_frame S s s' d :
  S_ok S s d -> get d s' = get d s -> (forall e, computed e s = true -> computed e s' = true) -> S_ok S s' d.
Proof.
  intros [(tk & Hg & Hi & He & Ha)|(kind & idx & key & a & Hg)] E M.
  - left. exists tk. rewrite E. repeat split; auto. intros e Hin. destruct (Ha e Hin); auto.
  - right. exists kind, idx, key, a. rewrite E. exact Hg.
Qed.

Lemma S_ok_alloc S s d : S_ok S s d -> get d s <> None.
Proof. intros [(tk & Hg & _)|(kind & idx & key & a & Hg)]; rewrite Hg; discriminate. Qed.

Lemma pass_ok_frame root S t s s' :
  pass_ok root S (Some t) s -> In t (tasks s) -> frame_t t s s' -> pass_ok root S (Some t) s'.
Proof.
  intros [K1 K2 K3 K4 K5 K6 K7 K8] Hin (Ft & Fd & Fo). pose proof Fd as (Dom & Mono & New).
  assert (HSt : ~ S t) by (intros HS; apply (K1 t HS Hin)).
  constructor.
  - intros d Hd. rewrite Ft. apply K1. exact Hd.
  - intros d Hd. apply (S_ok_frame S s); [apply K2; exact Hd| |exact Mono].
    apply Fo; [intros ->; contradiction|apply (S_ok_alloc S s); apply K2; exact Hd].
  - intros above x below tk Hst Hg Hds Hr e He. rewrite Ft in Hst.
    assert (Nx : x <> t) by congruence.
    assert (Ax : get x s <> None) by (apply K6; rewrite Hst; apply in_or_app; right; left; reflexivity).
    rewrite (Fo x Nx Ax) in Hg. destruct (K3 above x below tk Hst Hg Hds Hr e He) as [H|[H|H]]; auto.
  - intros u tk Hg Hds Hr HSu e He Hc. rewrite Ft.
    assert (Nu : u <> t) by congruence.
    destruct (get u s) as [fu|] eqn:Eu.
    + rewrite (Fo u Nu) in Hg by (rewrite Eu; discriminate). rewrite Eu in Hg. inversion Hg; subst fu.
      apply (K4 u tk Eu Hds Hr HSu e He). apply (unc_mono s s' Fd). exact Hc.
    + destruct (New u None tk Hg) as [(_ & E & _)|(o & tk0 & Hg0 & _)]; [rewrite E in He; destruct He|congruence].
  - rewrite Ft. exact K5.
  - intros d Hd. rewrite Ft in Hd. apply Dom. apply K6. exact Hd.
  - rewrite Ft. exact K7.
  - rewrite Ft. intros E. rewrite E in Hin. destruct Hin.
Qed.

(* the standard ways a running-mode transition changes the state *)
Lemma frame_t_view t s s' : heap s' = heap s -> tasks s' = tasks s -> frame_t t s s'.
Proof.
  intros Hh Ht. split; [exact Ht|]. split; [apply deps_step_view; exact Hh|].
  intros h _ _. unfold get. rewrite Hh. reflexivity.
Qed.

Lemma frame_t_upd t s s' o tk o' tk' :
  get t s = Some (mkFut o (KTask tk)) -> upd_entry s s' t (mkFut o' (KTask tk')) -> tasks s' = tasks s ->
  (o' = None -> o = None) -> (tk_deps tk' = tk_deps tk \/ tk_deps tk' = []) -> (tk_iter tk <= tk_iter tk')%Z ->
  frame_t t s s'.
Proof.
  intros Hg U Ht Ho Hd Hi. split; [exact Ht|]. split; [apply (deps_step_upd s s' t o tk o' tk'); auto|].
  intros h N _. destruct U as (_ & B & _). apply B. exact N.
Qed.

Lemma frame_t_grow t s s' : grow s s' -> tasks s' = tasks s -> frame_t t s s'.
Proof. intros (G1 & G2) Ht. split; [exact Ht|]. split; [exact G1|]. intros h _ Hh. apply G2. exact Hh. Qed.

(* list facts about the task stack *)
Lemma split_cons {A} (x : A) ts above y below :
  x :: ts = above ++ y :: below ->
  (above = [] /\ y = x /\ below = ts) \/ (exists above', above = x :: above' /\ ts = above' ++ y :: below).
Proof.
  destruct above as [|a above']; cbn; intros H; inversion H; subst; [left; auto|right; eauto].
Qed.

Lemma split_app {A} (Pf old above : list A) y below :
  Pf ++ old = above ++ y :: below ->
  (exists above', above = Pf ++ above' /\ old = above' ++ y :: below) \/
  (exists p1 p2, Pf = p1 ++ y :: p2 /\ above = p1 /\ below = p2 ++ old).
Proof.
  revert above. induction Pf as [|a Pf IH]; intros above H; cbn in *.
  - left. exists above. auto.
  - destruct above as [|b above']; cbn in H; inversion H; subst.
    + right. exists [], Pf. auto.
    + destruct (IH above' H2) as [(a' & -> & E)|(p1 & p2 & E1 & E2 & E3)].
      * left. exists a'. auto.
      * right. exists (b :: p1), p2. subst. auto.
Qed.

Lemma NoDup_app_intro {A} (a b : list A) : NoDup a -> NoDup b -> (forall x, In x a -> ~ In x b) -> NoDup (a ++ b).
Proof.
  intros Na Nb H. induction Na as [|x a Hx Na IH]; [exact Nb|]. cbn. constructor.
  - intros Hin. apply in_app_or in Hin as [Hin|Hin]; [contradiction|]. apply (H x (or_introl eq_refl) Hin).
  - apply IH. intros y Hy. apply H. right. exact Hy.
Qed.

Lemma S_ok_mono (S S' : Sset) s s' d :
  S_ok S s d -> (forall e, S e -> S' e) -> get d s' = get d s -> (forall e, computed e s = true -> computed e s' = true) ->
  S_ok S' s' d.
Proof.
  intros [(tk & Hg & Hi & (e0 & He0 & Hs0) & Ha)|(kind & idx & key & a & Hg)] HS E M.
  - left. exists tk. rewrite E. split; [exact Hg|]. split; [exact Hi|]. split; [exists e0; auto|].
    intros e Hin. destruct (Ha e Hin); auto.
  - right. exists kind, idx, key, a. rewrite E. exact Hg.
Qed.

(* popping the top entry x once it is computed (S unchanged) or settled (S := S + x) *)
Definition S_add (S : Sset) (x : fid) : Sset := fun d => S d \/ d = x.

Lemma pass_pop root (S S' : Sset) s s' x ts :
  pass_ok root S None s -> tasks s = x :: ts -> tasks s' = ts ->
  (forall h, h <> x -> get h s' = get h s) -> (forall h, get h s <> None -> get h s' <> None) ->
  (forall e, computed e s = true -> computed e s' = true) ->
  ((S' = S /\ computed x s' = true) \/ (S' = S_add S x /\ S_ok S' s' x)) ->
  pass_ok root S' None s'.
Proof.
  intros [K1 K2 K3 K4 K5 K6 K7 K8] Hst Hst' Hoth Hdom Hmono Hx.
  assert (Nx : ~ In x ts) by (rewrite Hst in K5; inversion K5; assumption).
  assert (Hunc : forall e, computed e s' = false -> computed e s = false).
  { intros e H. destruct (computed e s) eqn:E; [rewrite (Hmono e E) in H; discriminate|reflexivity]. }
  assert (HS : forall d, S d -> S' d) by (intros d Hd; destruct Hx as [[-> _]|[-> _]]; [exact Hd|left; exact Hd]).
  assert (HS' : forall d, S' d -> S d \/ d = x) by (intros d Hd; destruct Hx as [[-> _]|[-> _]]; [left; exact Hd|exact Hd]).
  assert (HSx : ~ S x) by (intros H; apply (K1 x H); rewrite Hst; left; reflexivity).
  constructor.
  - intros d Hd. rewrite Hst'. destruct (HS' d Hd) as [H| ->]; [|exact Nx]. intros Hin. apply (K1 d H). rewrite Hst. right. exact Hin.
  - intros d Hd. destruct (HS' d Hd) as [H|E].
    + apply (S_ok_mono S S' s s'); auto. apply Hoth. intros ->. contradiction.
    + subst d. destruct Hx as [[-> _]|[_ Hok]]; [contradiction|exact Hok].
  - intros above y below tk Hst2 Hg Hds _ e He. rewrite Hst' in Hst2.
    assert (Ny : y <> x) by (intros ->; apply Nx; rewrite Hst2; apply in_or_app; right; left; reflexivity).
    rewrite (Hoth y Ny) in Hg.
    assert (Hold : tasks s = (x :: above) ++ y :: below) by (rewrite Hst, Hst2; reflexivity).
    destruct (K3 (x :: above) y below tk Hold Hg Hds ltac:(discriminate) e He) as [H|[H|[H|H]]]; auto.
    subst e. destruct Hx as [[_ Hc]|[-> _]]; [left; exact Hc|right; left; right; reflexivity].
  - intros u tk Hg Hds _ HSu e He Hc. rewrite Hst'.
    destruct (fid_eqb u x) eqn:E.
    + apply fid_eqb_eq in E. subst u. exfalso. destruct Hx as [[_ Hcx]|[-> _]].
      * unfold computed in Hcx. rewrite Hg in Hcx. discriminate.
      * apply HSu. right. reflexivity.
    + assert (Nu : u <> x) by (intros ->; rewrite fid_eqb_refl in E; discriminate). rewrite (Hoth u Nu) in Hg.
      destruct (K4 u tk Hg Hds ltac:(discriminate) (fun H => HSu (HS u H)) e He (Hunc e Hc)) as [H1 H2].
      split.
      * intros H. destruct (HS' e H) as [H3| ->]; [contradiction|]. apply H2. rewrite Hst. left. reflexivity.
      * intros H. apply H2. rewrite Hst. right. exact H.
  - rewrite Hst'. rewrite Hst in K5. inversion K5. assumption.
  - intros d Hd. rewrite Hst' in Hd. apply Hdom. apply K6. rewrite Hst. right. exact Hd.
  - rewrite Hst'. rewrite Hst in K7. destruct K7 as [K7|(above & K7)]; [discriminate|].
    destruct above as [|a above']; cbn in K7; inversion K7; subst; [left; reflexivity|right; exists above'; reflexivity].
  - rewrite Hst'. intros ->. rewrite Hst in K7. destruct K7 as [K7|(above & K7)]; [discriminate|].
    destruct above as [|a above']; cbn in K7; inversion K7; subst.
    + destruct Hx as [[_ Hc]|[-> _]]; [left; exact Hc|right; right; reflexivity].
    + destruct above'; discriminate.
Qed.

(* first visit of a white blocked task x: it becomes grey and its uncomputed dependencies are pushed *)
Lemma pass_push root (S : Sset) s s' x ts tk tk' :
  pass_ok root S None s -> flags_ok s -> deps_ok root s ->
  tasks s = x :: ts -> get x s = Some (mkFut None (KTask tk)) -> tk_ds tk = false ->
  get x s' = Some (mkFut None (KTask tk')) -> tk_deps tk' = tk_deps tk -> tk_ds tk' = true ->
  (forall h, h <> x -> get h s' = get h s) -> (forall e, computed e s' = computed e s) ->
  tasks s' = rev (filter (fun d => negb (computed d s)) (tk_deps tk)) ++ x :: ts ->
  pass_ok root S None s'.
Proof.
  intros [K1 K2 K3 K4 K5 K6 K7 K8] HF [D1 D2 D3 D4 D5 D6] Hst Hg Hds Hg' Hdeps Hds' Hoth Hcomp Hst'.
  set (todo := filter (fun d => negb (computed d s)) (tk_deps tk)) in *.
  assert (HSx : ~ S x) by (intros H; apply (K1 x H); rewrite Hst; left; reflexivity).
  assert (Htodo : forall e, In e todo -> In e (tk_deps tk) /\ computed e s = false).
  { intros e He. apply filter_In in He as [H1 H2]. apply negb_true_iff in H2. auto. }
  assert (Hfree : forall e, In e todo -> ~ S e /\ ~ In e (tasks s)).
  { intros e He. destruct (Htodo e He) as [H1 H2]. apply (K4 x tk Hg Hds ltac:(discriminate) HSx e H1 H2). }
  assert (Hdom : forall h, get h s <> None -> get h s' <> None).
  { intros h Hh. destruct (fid_eqb h x) eqn:E; [apply fid_eqb_eq in E; subst h; rewrite Hg'; discriminate|].
    assert (h <> x) by (intros ->; rewrite fid_eqb_refl in E; discriminate). rewrite Hoth by assumption. exact Hh. }
  constructor.
  - intros d Hd. rewrite Hst'. intros Hin. apply in_app_or in Hin as [Hin|Hin].
    + apply in_rev in Hin. destruct (Hfree d Hin) as [H _]. contradiction.
    + apply (K1 d Hd). rewrite Hst. exact Hin.
  - intros d Hd. apply (S_ok_frame S s); [apply K2; exact Hd| |intros e; rewrite Hcomp; auto].
    apply Hoth. intros ->. contradiction.
  - intros above y below tky Hsplit Hgy Hdsy _ e He. rewrite Hst' in Hsplit.
    destruct (split_app _ _ _ _ _ Hsplit) as [(above' & -> & Hold)|(p1 & p2 & Hp & -> & ->)].
    + destruct (split_cons _ _ _ _ _ Hold) as [(-> & -> & ->)|(a'' & -> & Hts)].
      * rewrite Hg' in Hgy. inversion Hgy; subst tky. rewrite Hdeps in He. rewrite Hcomp.
        destruct (computed e s) eqn:Ec; [left; reflexivity|]. right. right. rewrite app_nil_r. apply -> in_rev.
        apply filter_In. split; [exact He|]. rewrite Ec. reflexivity.
      * assert (Ny : y <> x).
        { intros ->. rewrite Hst in K5. inversion K5. apply H1. rewrite Hts. apply in_or_app. right. left. reflexivity. }
        rewrite (Hoth y Ny) in Hgy.
        assert (Hold2 : tasks s = (x :: a'') ++ y :: below) by (rewrite Hst, Hts; reflexivity).
        destruct (K3 (x :: a'') y below tky Hold2 Hgy Hdsy ltac:(discriminate) e He) as [H|[H|H]].
        -- left. rewrite Hcomp. exact H.
        -- right. left. exact H.
        -- right. right. apply in_or_app. right. exact H.
    + (* y is one of the pushed dependencies: it cannot be grey *)
      assert (Hy : In y todo) by (apply in_rev; rewrite Hp; apply in_or_app; right; left; reflexivity).
      destruct (Hfree y Hy) as [_ Hny].
      assert (Ny : y <> x) by (intros ->; apply Hny; rewrite Hst; left; reflexivity).
      rewrite (Hoth y Ny) in Hgy. destruct (HF y tky Hgy) as [Hfl _]. exfalso. apply Hny. apply Hfl. left. exact Hdsy.
  - intros u tku Hgu Hdsu _ HSu e He Hc. rewrite Hcomp in Hc.
    assert (Nu : u <> x) by (intros ->; rewrite Hg' in Hgu; inversion Hgu; subst; congruence).
    rewrite (Hoth u Nu) in Hgu. destruct (K4 u tku Hgu Hdsu ltac:(discriminate) HSu e He Hc) as [H1 H2].
    split; [exact H1|]. rewrite Hst'. intros Hin. apply in_app_or in Hin as [Hin|Hin]; [|apply H2; rewrite Hst; exact Hin].
    apply in_rev in Hin. destruct (Htodo e Hin) as [H3 _]. apply Nu. apply (D2 u x tku tk e Hgu Hg He H3 Hc).
  - rewrite Hst'. apply NoDup_app_intro.
    + apply NoDup_rev. apply (D3 x tk Hg).
    + rewrite <- Hst. exact K5.
    + intros e He. apply in_rev in He. destruct (Hfree e He) as [_ H]. rewrite <- Hst. exact H.
  - intros d Hd. rewrite Hst' in Hd. apply in_app_or in Hd as [Hd|Hd].
    + apply in_rev in Hd. destruct (Htodo d Hd) as [H1 _]. apply Hdom. apply (D1 x None tk d Hg H1).
    + apply Hdom. apply K6. rewrite Hst. exact Hd.
  - right. rewrite Hst'. rewrite Hst in K7. destruct K7 as [K7|(above & K7)]; [discriminate|].
    exists (rev todo ++ above). rewrite K7, app_assoc. reflexivity.
  - rewrite Hst'. intros E. apply app_eq_nil in E as [_ E]. discriminate.
Qed.

(* a task yields: its dependencies become (old ones, all computed) ++ (fresh, distinct futures) *)
Lemma deps_ok_yield root s s' t tk tk' (newd : list fid) :
  deps_ok root s -> get root s <> None ->
  get t s = Some (mkFut None (KTask tk)) -> upd_entry s s' t (mkFut None (KTask tk')) ->
  tk_deps tk' = tk_deps tk ++ newd -> (forall e, In e (tk_deps tk) -> computed e s = true) ->
  NoDup newd -> (forall e, In e newd -> get e s <> None /\ e <> root /\
                   forall p o tkp, get p s = Some (mkFut o (KTask tkp)) -> ~ In e (tk_deps tkp)) ->
  (1 <= tk_iter tk)%Z -> tk_iter tk' = tk_iter tk ->
  deps_ok root s'.
Proof.
  intros [K1 K2 K3 K4 K5 K6] Hroot Hg U Hd Hold Hnd Hnew Hi Hi'.
  pose proof (upd_entry_dom _ _ _ _ _ Hg U) as Dom. destruct U as (A & B & _).
  assert (Hcomp : forall e, computed e s' = computed e s).
  { intros e. unfold computed. destruct (fid_eqb e t) eqn:E.
    - apply fid_eqb_eq in E. subst e. rewrite A, Hg. reflexivity.
    - assert (e <> t) by (intros ->; rewrite fid_eqb_refl in E; discriminate). rewrite B by assumption. reflexivity. }
  assert (Hent : forall p o tkp, get p s' = Some (mkFut o (KTask tkp)) ->
            (p = t /\ o = None /\ tkp = tk') \/ (p <> t /\ get p s = Some (mkFut o (KTask tkp)))).
  { intros p o tkp Hp. destruct (fid_eqb p t) eqn:E.
    - apply fid_eqb_eq in E. subst p. rewrite A in Hp. inversion Hp; subst. left. auto.
    - assert (p <> t) by (intros ->; rewrite fid_eqb_refl in E; discriminate). rewrite B in Hp by assumption. right. auto. }
  constructor.
  - intros p o tkp d Hp Hin. apply Dom. destruct (Hent p o tkp Hp) as [(-> & -> & ->)|(N & Hp0)].
    + rewrite Hd in Hin. apply in_app_or in Hin as [Hin|Hin]; [apply (K1 t None tk d Hg Hin)|apply Hnew; exact Hin].
    + apply (K1 p o tkp d Hp0 Hin).
  - intros p p' tkp tkp' d Hp Hp' Hin Hin' Hc. rewrite Hcomp in Hc.
    destruct (Hent p None tkp Hp) as [(-> & _ & ->)|(N & Hp0)]; destruct (Hent p' None tkp' Hp') as [(-> & _ & ->)|(N' & Hp0')]; auto.
    + rewrite Hd in Hin. apply in_app_or in Hin as [Hin|Hin].
      * rewrite (Hold d Hin) in Hc. discriminate.
      * exfalso. destruct (Hnew d Hin) as (_ & _ & H). apply (H p' None tkp' Hp0' Hin').
    + rewrite Hd in Hin'. apply in_app_or in Hin' as [Hin'|Hin'].
      * rewrite (Hold d Hin') in Hc. discriminate.
      * exfalso. destruct (Hnew d Hin') as (_ & _ & H). apply (H p None tkp Hp0 Hin).
    + apply (K2 p p' tkp tkp' d Hp0 Hp0' Hin Hin' Hc).
  - intros p tkp Hp. destruct (Hent p None tkp Hp) as [(-> & _ & ->)|(N & Hp0)].
    + rewrite Hd, filter_app.
      assert (filter (fun d => negb (computed d s')) (tk_deps tk) = []) as ->.
      { clear - Hold Hcomp. induction (tk_deps tk) as [|e l IH]; [reflexivity|]. cbn. rewrite Hcomp, (Hold e (or_introl eq_refl)). cbn.
        apply IH. intros e' He'. apply Hold. right. exact He'. }
      cbn. apply NoDup_filter. exact Hnd.
    + apply (NoDup_filter_weaken (fun d => negb (computed d s))); [intros z; rewrite Hcomp; auto|apply (K3 p tkp Hp0)].
  - intros p o tkp Hp Hin. destruct (Hent p o tkp Hp) as [(-> & -> & ->)|(N & Hp0)].
    + rewrite Hd in Hin. apply in_app_or in Hin as [Hin|Hin]; [apply (K4 t None tk Hg Hin)|].
      destruct (Hnew root Hin) as (_ & H & _). congruence.
    + apply (K4 p o tkp Hp0 Hin).
  - intros p tkp Hp Hne. destruct (Hent p None tkp Hp) as [(-> & _ & ->)|(N & Hp0)]; [lia|apply (K5 p tkp Hp0 Hne)].
  - intros p o tkp Hp. destruct (Hent p o tkp Hp) as [(-> & -> & ->)|(N & Hp0)]; [pose proof (K6 t None tk Hg); lia|apply (K6 p o tkp Hp0)].
Qed.

Section C04.
  Variable P : params.
  Hypothesis HP : pointwise P.
  Variable root : fid.
  Variable res : outcome.

  Definition running_deps_done (s : st) (t : fid) : Prop :=
    forall tk, get t s = Some (mkFut None (KTask tk)) -> forall e, In e (tk_deps tk) -> computed e s = true.

  Definition after_run (S : Sset) (s : st) (t : fid) : Prop :=
    forall tk, get t s = Some (mkFut None (KTask tk)) ->
      forall e, In e (tk_deps tk) -> computed e s = false -> ~ S e /\ ~ In e (tasks s).

  Definition stuck (S : Sset) (s : st) : Prop :=
    computed root s = true \/ (S root /\ forall d, S d -> S_ok S s d).

  Definition DL (spec : specmap) (S : Sset) (c : cfg) : Prop :=
    FL root res spec c /\
    match c_mode c with
    | MUnwind _ | MDone _ | MStuck => True
    | m => deps_ok root (c_st c) /\
      match m with
      | MExecLoop => pass_ok root S None (c_st c)
      | MResume t | MRun t _ => pass_ok root S (Some t) (c_st c) /\ running_deps_done (c_st c) t
      | MContRet => exists t rest, tasks (c_st c) = t :: rest /\ pass_ok root S (Some t) (c_st c) /\ after_run S (c_st c) t
      | MAfterExec => stuck S (c_st c)
      | _ => True
      end
    end.

  Lemma root_alloc spec c m : c_mode c = m -> CInv root res spec c ->
    match m with MUnwind _ | MDone _ | MStuck => True | _ => get root (c_st c) <> None end.
  Proof.
    intros Hm (_ & H). rewrite Hm in H. destruct m; try exact I; destruct H as (_ & _ & (o1 & tk1 & Hg) & _); rewrite Hg; discriminate.
  Qed.

  Lemma dl_MValue spec S h fr s : DL spec S (mkC (MValue h) fr s) -> DL spec S (step P (mkC (MValue h) fr s)).
  Proof.
    intros (HFL & HD & _). split; [apply fl_MValue; auto|].
    destruct HFL as ((Hr & Hf & HS & Ht & ->) & _). cbn in *. subst fr. cbn [step c_mode c_frames c_st].
    destruct (computed root s); [cbn; auto|]. destruct Ht as (out & tk & Hg). rewrite Hg. cbn. auto.
  Qed.

  Lemma dl_MDeliver spec S o fr s : DL spec S (mkC (MDeliver o) fr s) -> DL spec S (step P (mkC (MDeliver o) fr s)).
  Proof.
    intros (HFL & HD & _). split; [apply fl_MDeliver; auto|].
    destruct HFL as ((Hr & Hf & _) & _). cbn in Hf. subst fr. cbn. exact I.
  Qed.

  (* a new pass starts with nothing settled *)
  Lemma dl_MWaitHead spec S fr s : DL spec S (mkC MWaitHead fr s) -> exists S', DL spec S' (step P (mkC MWaitHead fr s)).
  Proof.
    intros (HFL & HD & _). pose proof (fl_MWaitHead P root res spec fr s HFL) as HFL'.
    destruct HFL as ((Hr & Hf & HS & Ht & _) & HF & HK). cbn in Hf, HS, Ht, HF, HK. subst fr.
    cbn [step c_mode c_frames c_st] in *. destruct (computed root s) eqn:Hc.
    - exists S. split; [exact HFL'|]. cbn. auto.
    - exists (fun _ => False). split; [exact HFL'|]. cbn. split.
      + apply (deps_ok_step root s); [destruct Ht as (o & tk & Hg); rewrite Hg; discriminate|exact HD|apply deps_step_view; reflexivity].
      + destruct Ht as (o & tk & Hg).
        assert (o = None) as -> by (unfold computed in Hc; rewrite Hg in Hc; cbn in Hc; destruct o; [discriminate|reflexivity]).
        constructor; cbn [tasks with_tasks].
        * intros d [].
        * intros d [].
        * intros above x below tkx Hst Hgx Hds _ e He. exfalso. rewrite HK in Hst.
          destruct above as [|a above']; cbn in Hst; inversion Hst; subst; [|destruct above'; discriminate].
          change (get x (with_tasks s [x])) with (get x s) in Hgx. destruct (HF x tkx Hgx) as [Hfl _].
          rewrite HK in Hfl. destruct (Hfl (or_introl Hds)).
        * intros u tku Hgu Hds _ _ e He Hce. split; [intros []|]. rewrite HK. intros [<-|[]].
          change (get u (with_tasks s [root])) with (get u s) in Hgu. apply (dk_root root s HD u None tku Hgu He).
        * rewrite HK. constructor; [intros []|constructor].
        * rewrite HK. intros d [<-|[]]. change (get root (with_tasks s [root])) with (get root s). rewrite Hg. discriminate.
        * right. exists []. rewrite HK. reflexivity.
        * rewrite HK. discriminate.
  Qed.

End C04.
