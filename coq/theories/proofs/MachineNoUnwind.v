(* Discharging the hypothesis [no_unwind] of the tree-program theorems (MachineC01/C02/C04/C06/C07/C03T).

   An exception unwinds through asynq's frames from two places only (MachineC08U.unwind_sources): the
   MAX_TASK_STACK_SIZE guard at the head of the _execute loop (RuntimeError, E_RUNTIME) and _queue_exit
   (FutureIsAlreadyComputed, E_ALREADY).  For TREE programs under a pointwise service:

   1. _queue_exit never raises: a task body that returns (or whose generator is exhausted) belongs to a
      task that is not computed yet ([tree_step_not_already], from the invariant CInv of MachineC01.v).
      Hence the FIRST unwinding of a run, if any, is the guard's RuntimeError, and the configuration before
      it is the head of the _execute loop with more than MAX_TASK_STACK_SIZE tasks on the stack
      ([tree_unwind_is_guard]); [no_unwind] is equivalent to "the guard stays silent"
      ([tree_no_unwind_iff_guard_silent], [no_unwind_guard_silent]), where [guard_fires] is the boolean test
      of Machine.step, and the C01 theorem holds with the alternative "or the guard fired"
      ([async_eq_seq_tree_unless_guard]).
   2. the task stack has no duplicates and holds allocated futures only (pass_ok of MachineC04.v; the other
      modes have an empty stack, stack_ok of MachineDFS.v), futures are numbered 0 .. top_next-1, so the stack
      is never longer than the number of futures created so far ([tree_stack_bound]).  Hence the guard
      cannot fire while at most MAX_TASK_STACK_SIZE futures exist
      ([tree_guard_silent_while_few_futures]): for such runs [no_unwind] is a theorem, not a hypothesis.
   3. point 1 also for [stree] programs (tree + synchronous calls of fresh tasks, MachineC01S.v, invariant
      CI): [stree_step_not_already], [stree_unwind_is_guard], [stree_no_unwind_iff_guard_silent],
      [async_eq_seq_stree_unless_guard].  There the RuntimeError can be caught by the caller of a
      synchronous call; the invariant says nothing after the first unwinding, so "the guard fired at some
      earlier step" is the alternative.  No stack bound is proved for stree programs (a nested scheduler
      loop pushes its root on the same stack; the stack-shape invariant of MachineDFSS.v is not used here). *)
From Asynq Require Import Machine Seq proofs.ProgProofs proofs.MachineFrame proofs.MachineC05 proofs.MachineC08
     proofs.MachineC08U proofs.MachineC01 proofs.MachineDFS proofs.MachineC04 proofs.MachineC01S.

(* ------------------------------------------------------------------ the guard, as a test on configurations *)
(* the condition, and the order of the tests, of the MExecLoop case of Machine.step *)
Definition guard_fires (P : params) (c : cfg) : bool :=
  match c_mode c, c_frames c with
  | MExecLoop, FExec init :: _ =>
    negb (Nat.leb (length (tasks (c_st c))) init) &&
    Z.ltb (p_maxstack P) (Z.of_nat (length (tasks (c_st c))))
  | _, _ => false
  end.

Lemma guard_fires_step P c : guard_fires P c = true -> c_mode (step P c) = MUnwind E_RUNTIME.
Proof.
  destruct c as [m fr s]. unfold guard_fires. cbn [c_mode c_frames c_st].
  destruct m; try (intros Hd; discriminate Hd).
  destruct fr as [|[|t k|r|i|t old] fr']; try (intros Hd; discriminate Hd).
  intros Hg. apply andb_true_iff in Hg as [H1 H2]. apply negb_true_iff in H1.
  cbn [step c_mode c_frames c_st]. rewrite H1, H2. reflexivity.
Qed.

Lemma guard_fires_inv P c : guard_fires P c = true ->
  c_mode c = MExecLoop /\ (p_maxstack P < Z.of_nat (length (tasks (c_st c))))%Z.
Proof.
  destruct c as [m fr s]. unfold guard_fires. cbn [c_mode c_frames c_st].
  destruct m; try (intros Hd; discriminate Hd).
  destruct fr as [|[|t k|r|i|t old] fr']; try (intros Hd; discriminate Hd).
  intros Hg. apply andb_true_iff in Hg as [_ H2]. apply Z.ltb_lt in H2. split; [reflexivity|exact H2].
Qed.

(* the RuntimeError starts to unwind only where the guard fires *)
Lemma step_runtime_guard P c :
  is_unwind (c_mode c) = false -> c_mode (step P c) = MUnwind E_RUNTIME -> guard_fires P c = true.
Proof.
  destruct c as [m fr s]. cbn [c_mode]. intros Hu Hm.
  destruct (unwind_sources P (mkC m fr s) _ Hu Hm) as [(_ & Hmode)|(E & _)];
    [|exfalso; apply E_ALREADY_not_RUNTIME; symmetry; exact E].
  cbn [c_mode] in Hmode. subst m. unfold guard_fires. cbn [c_mode c_frames c_st].
  revert Hm. cbn [step c_mode c_frames c_st].
  destruct fr as [|[|t k|r|i|t old] fr']; try (intros Hm; discriminate Hm).
  destruct (Nat.leb (length (tasks s)) i); [intros Hm; discriminate Hm|].
  destruct (Z.ltb (p_maxstack P) (Z.of_nat (length (tasks s)))); [reflexivity|].
  destruct (tasks s) as [|x ts]; [intros Hm; discriminate Hm|].
  destruct (computed x s); [intros Hm; discriminate Hm|].
  destruct (get x s) as [[o [tk|kind idx key a|o'|]]|]; try (intros Hm; discriminate Hm).
  destruct (is_blocked tk s); [destruct (tk_ds tk); intros Hm; discriminate Hm|].
  destruct (computed x (resume_contexts x s)); intros Hm; discriminate Hm.
Qed.

(* ------------------------------------------------------------------ runs, one step at a time *)
Lemma step_final P c : is_final (c_mode c) = true -> step P c = c.
Proof. destruct c as [m fr s]. destruct m; cbn [c_mode is_final]; intros Hf; try discriminate Hf; reflexivity. Qed.

Lemma run_succ P n : forall c, run P (S n) c = step P (run P n c).
Proof.
  induction n as [|n IH]; intros c.
  - rewrite run_S. cbn [run]. destruct (is_final (c_mode c)) eqn:Hf; [|reflexivity].
    symmetry. apply step_final. exact Hf.
  - rewrite (run_S P (S n) c), (run_S P n c). destruct (is_final (c_mode c)) eqn:Hf.
    + symmetry. apply step_final. exact Hf.
    + apply IH.
Qed.

(* no configuration before the n-th unwinds *)
Definition quiet (P : params) (n : nat) (c : cfg) : Prop :=
  forall k, (k < n)%nat -> is_unwind (c_mode (run P k c)) = false.

Lemma quiet_no_unwind P n c : quiet P (S n) c <-> no_unwind P n c.
Proof.
  split; intros H k Hk; apply H; lia.
Qed.

(* the easy direction, for every program: a run without unwinding never sees the guard fire *)
Lemma no_unwind_guard_silent P n c :
  no_unwind P n c -> forall k, (k < n)%nat -> guard_fires P (run P k c) = false.
Proof.
  intros Hn k Hk. destruct (guard_fires P (run P k c)) eqn:G; [|reflexivity]. exfalso.
  apply guard_fires_step in G. rewrite <- run_succ in G.
  specialize (Hn (S k) ltac:(lia)). rewrite G in Hn. discriminate Hn.
Qed.

Lemma bounded_search (f : nat -> bool) n :
  (exists k, (k < n)%nat /\ f k = true) \/ (forall k, (k < n)%nat -> f k = false).
Proof.
  induction n as [|n [(k & Hk & Hf)|IH]].
  - right. intros k Hk. lia.
  - left. exists k. split; [lia|exact Hf].
  - destruct (f n) eqn:Hn.
    + left. exists n. split; [lia|exact Hn].
    + right. intros k Hk. destruct (Nat.eq_dec k n) as [->|Ne]; [exact Hn|apply IH; lia].
Qed.

(* ------------------------------------------------------------------ distinct ids below a bound *)
Lemma nodup_ids_length (l : list fid) (N : Z) :
  (0 <= N)%Z -> NoDup l -> (forall h, In h l -> exists n, h = [n] /\ (0 <= n < N)%Z) ->
  (Z.of_nat (length l) <= N)%Z.
Proof.
  intros HN Hnd Hin.
  set (dom := map (fun k => [Z.of_nat k]) (seq 0 (Z.to_nat N))).
  assert (Hincl : incl l dom).
  { intros h Hh. destruct (Hin h Hh) as (n & -> & Hn). unfold dom. apply in_map_iff.
    exists (Z.to_nat n). split; [rewrite Z2Nat.id by lia; reflexivity|]. apply in_seq. lia. }
  pose proof (NoDup_incl_length Hnd Hincl) as Hle. unfold dom in Hle. rewrite map_length, seq_length in Hle. lia.
Qed.

(* ------------------------------------------------------------------ one step of a tree computation *)
Section Step.
  Variable P : params.
  Hypothesis HP : pointwise P.
  Variable root : fid.
  Variable res : outcome.

  (* Milestone 1: _queue_exit never raises FutureIsAlreadyComputed *)
  Lemma tree_step_not_already spec c :
    CInv root res spec c -> is_unwind (c_mode c) = false -> c_mode (step P c) <> MUnwind E_ALREADY.
  Proof.
    intros HI Hu Hm.
    destruct (unwind_sources P c _ Hu Hm) as [(E & _)|(_ & t & [Hmode|(p & Hmode)])].
    - exact (E_ALREADY_not_RUNTIME E).
    - (* MResume: a suspended task of a tree program has a live generator *)
      destruct c as [m fr s]. cbn [c_mode] in Hmode. subst m.
      destruct HI as (Hr & Hf & HS & Ht & (tk & Hg & Hcomp)). cbn in Hf, HS, Ht, Hg, Hcomp.
      destruct (SInv_entry _ _ _ _ _ HS Hg) as (_ & ot & Hst & _ & Hp & Hk). cbn in Hp, Hk.
      destruct (Hk eq_refl ltac:(discriminate)) as (k & K1 & _).
      revert Hm. cbn [step c_mode c_frames c_st]. unfold get_task. rewrite Hg. rewrite K1.
      intros Hm. discriminate Hm.
    - (* MRun: the running task is not computed *)
      destruct c as [m fr s]. cbn [c_mode] in Hmode. subst m.
      destruct HI as (Hr & Hf & HS & Ht & (Htree & Hst & (tk & Hg))). cbn in Hf, HS, Ht, Hg.
      destruct Hf as (old & i & ->).
      assert (Hfr : frames_ok root MContRet [FCont t old; FExec i; FWait root; FTop]) by (cbn; eauto).
      revert Hm. cbn [step c_mode c_frames c_st]. unfold get_task. rewrite Hg.
      inversion Htree as [v Ev|v Ev|e Ev|y k Hl Hk Ev|cx k Hc Hk Ev|cx k Hc Hk Ev]; subst p.
      + destruct (finish_task root res spec t s tk (Ok v) _ Hr HS Ht Hg Hst Hfr) as (Hnc & _). cbn zeta in Hnc.
        rewrite Hnc. intros Hm. discriminate Hm.
      + destruct (finish_task root res spec t s tk (Ok v) _ Hr HS Ht Hg Hst Hfr) as (Hnc & _). cbn zeta in Hnc.
        rewrite Hnc. intros Hm. discriminate Hm.
      + intros Hm. discriminate Hm.
      + destruct (inst t y s) as [y' s1]. destruct (get t s1) as [[o1 [tk1|kd ix ky a|o'|]]|]; try (intros Hm; discriminate Hm).
        destruct (futs (extract y')); intros Hm; discriminate Hm.
      + intros Hm. discriminate Hm.
      + intros Hm. discriminate Hm.
  Qed.

  Lemma DL_CInv spec S c : DL root res spec S c -> CInv root res spec c.
  Proof. intros ((HC & _) & _). exact HC. Qed.

  (* Milestone 3: the task stack has no duplicates and is no longer than the number of futures created *)
  Lemma tree_stack_bound spec S c :
    DL root res spec S c -> is_final (c_mode c) = false -> is_unwind (c_mode c) = false ->
    NoDup (tasks (c_st c)) /\ (Z.of_nat (length (tasks (c_st c))) <= top_next (c_st c))%Z.
  Proof.
    intros HD Hfin Hu. destruct c as [m fr s]. cbn [c_mode c_st] in *.
    assert (Hemp : forall spec' r, SInv spec' r s -> tasks s = [] ->
              NoDup (tasks s) /\ (Z.of_nat (length (tasks s)) <= top_next s)%Z).
    { intros spec' r (_ & _ & HN) E. rewrite E. split; [constructor|cbn; exact HN]. }
    assert (Hpass : forall spec' r r' S', SInv spec' r s -> pass_ok root S' r' s ->
              NoDup (tasks s) /\ (Z.of_nat (length (tasks s)) <= top_next s)%Z).
    { intros spec' r r' S' HS Hp. split; [exact (pk_nodup _ _ _ _ Hp)|].
      pose proof HS as (_ & _ & HN).
      apply nodup_ids_length; [exact HN|exact (pk_nodup _ _ _ _ Hp)|].
      intros h Hin. pose proof (pk_alloc _ _ _ _ Hp h Hin) as Ha.
      destruct (get h s) as [f|] eqn:Hg; [|exfalso; apply Ha; reflexivity].
      destruct (SInv_entry _ _ _ _ _ HS Hg) as (Hid & _). exact Hid. }
    destruct m; cbn [is_final is_unwind] in Hfin, Hu; try discriminate Hfin; try discriminate Hu.
    - destruct HD as (((_ & _ & HS & _) & (_ & Hk)) & _). cbn in HS, Hk. exact (Hemp _ _ HS Hk).
    - destruct HD as (((_ & _ & HS & _) & (_ & Hk)) & _). cbn in HS, Hk. exact (Hemp _ _ HS Hk).
    - destruct HD as (((_ & _ & HS & _) & (_ & Hk)) & _). cbn in HS, Hk. exact (Hemp _ _ HS Hk).
    - destruct HD as (((_ & _ & HS & _) & _) & (_ & Hp)). cbn in HS, Hp. exact (Hpass _ _ _ _ HS Hp).
    - destruct HD as (((_ & _ & HS & _) & _) & (_ & Hp & _)). cbn in HS, Hp. exact (Hpass _ _ _ _ HS Hp).
    - destruct HD as (((_ & _ & HS & _) & _) & (_ & Hp & _)). cbn in HS, Hp. exact (Hpass _ _ _ _ HS Hp).
    - destruct HD as (((_ & _ & HS & _) & _) & (_ & (t & rest & _ & Hp & _))). cbn in HS, Hp. exact (Hpass _ _ _ _ HS Hp).
    - destruct HD as (((_ & _ & HS & _) & (_ & Hk)) & _). cbn in HS, Hk. exact (Hemp _ _ HS Hk).
  Qed.

  (* if a step starts an unwinding, it is the guard's *)
  Lemma tree_step_unwind spec S c e :
    DL root res spec S c -> is_unwind (c_mode c) = false -> c_mode (step P c) = MUnwind e ->
    e = E_RUNTIME /\ guard_fires P c = true.
  Proof.
    intros HD Hu Hm.
    destruct (unwind_sources P c e Hu Hm) as [(-> & _)|(-> & _)].
    - split; [reflexivity|]. apply step_runtime_guard; assumption.
    - exfalso. exact (tree_step_not_already spec c (DL_CInv _ _ _ HD) Hu Hm).
  Qed.

  Lemma dl_prefix n : forall spec S c0,
    DL root res spec S c0 -> quiet P n c0 -> exists spec' S', DL root res spec' S' (run P n c0).
  Proof.
    induction n as [|n IH]; intros spec S c0 HD Hq.
    - exists spec, S. exact HD.
    - destruct (IH spec S c0 HD) as (spec1 & S1 & H1); [intros k Hk; apply Hq; lia|].
      rewrite run_succ. apply (dl_step P HP root res spec1 S1); [apply Hq; lia|exact H1].
  Qed.

  Lemma cinv_prefix n : forall spec c0,
    CInv root res spec c0 -> quiet P n c0 -> exists spec', CInv root res spec' (run P n c0).
  Proof.
    induction n as [|n IH]; intros spec c0 HC Hq.
    - exists spec. exact HC.
    - destruct (IH spec c0 HC) as (spec1 & H1); [intros k Hk; apply Hq; lia|].
      rewrite run_succ. apply (c01_step P HP root res spec1); [apply Hq; lia|exact H1].
  Qed.

  (* the same from the invariant of MachineC01.v alone (no stack facts needed) *)
  Lemma cinv_unwind_is_guard spec c0 n e :
    CInv root res spec c0 -> is_unwind (c_mode c0) = false -> quiet P n c0 ->
    c_mode (run P n c0) = MUnwind e ->
    e = E_RUNTIME /\ exists m, n = S m /\ guard_fires P (run P m c0) = true.
  Proof.
    intros HC Hu0 Hq Hm. destruct n as [|m].
    - cbn [run] in Hm. rewrite Hm in Hu0. discriminate Hu0.
    - assert (Hqm : quiet P m c0) by (intros k Hk; apply Hq; lia).
      destruct (cinv_prefix m spec c0 HC Hqm) as (spec1 & H1).
      assert (Hum : is_unwind (c_mode (run P m c0)) = false) by (apply Hq; lia).
      rewrite run_succ in Hm.
      destruct (unwind_sources P _ e Hum Hm) as [(-> & _)|(-> & _)].
      + split; [reflexivity|]. exists m. split; [reflexivity|]. apply step_runtime_guard; assumption.
      + exfalso. exact (tree_step_not_already spec1 _ H1 Hum Hm).
  Qed.
End Step.

(* ------------------------------------------------------------------ whole runs of a tree program *)
Section Tree.
  Variable P : params.
  Hypothesis HP : pointwise P.
  Variable p : prog.
  Hypothesis Ht : tree p.

  Let h := fst (create [] (FTask p) (st0 P)).
  Let s1 := snd (create [] (FTask p) (st0 P)).

  Lemma dl_start : exists spec S, DL h (eval p) spec S (start h s1).
  Proof.
    apply (dl_reach P HP p Ht 0). intros k Hk. assert (k = 0)%nat as -> by lia. reflexivity.
  Qed.

  Lemma dl_at n : quiet P n (start h s1) -> exists spec S, DL h (eval p) spec S (run P n (start h s1)).
  Proof.
    intros Hq. destruct dl_start as (spec & S & HD). exact (dl_prefix P HP h (eval p) n spec S _ HD Hq).
  Qed.

  (* Milestone 1: the first exception that unwinds through asynq's frames in a tree computation is the
     RuntimeError of the MAX_TASK_STACK_SIZE guard - never FutureIsAlreadyComputed - and the configuration
     before it is the head of the _execute loop with a task stack longer than MAX_TASK_STACK_SIZE *)
  Theorem tree_unwind_is_guard n e :
    (forall k, (k < n)%nat -> is_unwind (c_mode (run P k (start h s1))) = false) ->
    c_mode (run P n (start h s1)) = MUnwind e ->
    e = E_RUNTIME /\
    exists m, n = S m /\ c_mode (run P m (start h s1)) = MExecLoop /\
              (p_maxstack P < Z.of_nat (length (tasks (c_st (run P m (start h s1))))))%Z /\
              guard_fires P (run P m (start h s1)) = true.
  Proof.
    intros Hq Hm. destruct n as [|m]; [cbn in Hm; discriminate Hm|].
    assert (Hqm : quiet P m (start h s1)) by (intros k Hk; apply Hq; lia).
    destruct (dl_at m Hqm) as (spec & S & HD).
    assert (Hum : is_unwind (c_mode (run P m (start h s1))) = false) by (apply Hq; lia).
    rewrite run_succ in Hm.
    destruct (tree_step_unwind P h (eval p) spec S _ e HD Hum Hm) as (-> & G).
    split; [reflexivity|]. exists m. split; [reflexivity|].
    destruct (guard_fires_inv P _ G) as (A & B). split; [exact A|]. split; [exact B|exact G].
  Qed.

  (* induction principle behind the corollaries: to exclude unwinding it suffices to exclude the guard at
     configurations reached without unwinding *)
  Lemma tree_quiet_ind n :
    (forall m, (m < n)%nat -> quiet P (S m) (start h s1) -> guard_fires P (run P m (start h s1)) = false) ->
    no_unwind P n (start h s1).
  Proof.
    intros Hg. apply quiet_no_unwind.
    assert (H : forall m, (m <= S n)%nat -> quiet P m (start h s1)).
    { induction m as [|m IH]; intros Hm k Hk; [lia|].
      assert (Hqm : quiet P m (start h s1)) by (apply IH; lia).
      destruct (Nat.eq_dec k m) as [->|Ne]; [|apply Hqm; lia].
      destruct (c_mode (run P m (start h s1))) eqn:Em; try reflexivity. exfalso.
      destruct (tree_unwind_is_guard m e Hqm Em) as (_ & m' & -> & _ & _ & G).
      rewrite Hg in G; [discriminate G|lia|]. intros j Hj. apply Hqm. exact Hj. }
    apply H. lia.
  Qed.

  (* for tree programs no_unwind says exactly that the guard stays silent (converse: no_unwind_guard_silent) *)
  Corollary tree_no_unwind_iff_guard_silent n :
    (forall k, (k < n)%nat -> guard_fires P (run P k (start h s1)) = false) -> no_unwind P n (start h s1).
  Proof. intros Hg. apply tree_quiet_ind. intros m Hm _. apply Hg. exact Hm. Qed.

  (* Milestone 2: C01 without the hypothesis no_unwind *)
  Theorem async_eq_seq_tree_unless_guard n o :
    c_mode (run P n (start h s1)) = MDone o ->
    o = eval p \/ exists k, (k < n)%nat /\ guard_fires P (run P k (start h s1)) = true.
  Proof.
    intros Hm. destruct (bounded_search (fun k => guard_fires P (run P k (start h s1))) n) as [Hex|Hall].
    - right. exact Hex.
    - left. apply (async_eq_seq_tree P p n o HP Ht); [|exact Hm].
      apply tree_no_unwind_iff_guard_silent. exact Hall.
  Qed.

  (* Milestone 3: in every configuration reached before any unwinding the task stack holds pairwise
     distinct futures, so it is no longer than the number of futures created so far *)
  Theorem tree_stack_bound_run n :
    no_unwind P n (start h s1) -> is_final (c_mode (run P n (start h s1))) = false ->
    NoDup (tasks (c_st (run P n (start h s1)))) /\
    (Z.of_nat (length (tasks (c_st (run P n (start h s1))))) <= top_next (c_st (run P n (start h s1))))%Z.
  Proof.
    intros Hn Hf. destruct (dl_at n) as (spec & S & HD); [intros k Hk; apply Hn; lia|].
    apply (tree_stack_bound h (eval p) spec S); [exact HD|exact Hf|apply Hn; lia].
  Qed.

  (* ... hence the guard is silent, and nothing unwinds, as long as no more than MAX_TASK_STACK_SIZE
     futures have been created *)
  Theorem tree_guard_silent_while_few_futures n :
    (forall k, (k <= n)%nat -> (top_next (c_st (run P k (start h s1))) <= p_maxstack P)%Z) ->
    no_unwind P n (start h s1).
  Proof.
    intros Hfew. apply tree_quiet_ind. intros m Hm Hq.
    destruct (guard_fires P (run P m (start h s1))) eqn:G; [|reflexivity]. exfalso.
    destruct (guard_fires_inv P _ G) as (Emode & Hlt).
    destruct (dl_at m) as (spec & S & HD); [intros k Hk; apply Hq; lia|].
    destruct (tree_stack_bound h (eval p) spec S _ HD) as (_ & Hle).
    - rewrite Emode. reflexivity.
    - rewrite Emode. reflexivity.
    - specialize (Hfew m ltac:(lia)). lia.
  Qed.

  (* C01 for runs with few futures: no hypothesis about unwinding at all *)
  Corollary async_eq_seq_tree_few_futures n o :
    (forall k, (k <= n)%nat -> (top_next (c_st (run P k (start h s1))) <= p_maxstack P)%Z) ->
    c_mode (run P n (start h s1)) = MDone o -> o = eval p.
  Proof.
    intros Hfew Hm. apply (async_eq_seq_tree P p n o HP Ht); [|exact Hm].
    apply tree_guard_silent_while_few_futures. exact Hfew.
  Qed.
End Tree.

(* ------------------------------------------------------------------ tree programs with synchronous calls *)
Section StepS.
  Variable P : params.
  Hypothesis HP : pointwise P.
  Variable res : outcome.

  Lemma stree_step_not_already spec c :
    CI res spec c -> is_unwind (c_mode c) = false -> c_mode (step P c) <> MUnwind E_ALREADY.
  Proof.
    intros HI Hu Hm.
    destruct (unwind_sources P c _ Hu Hm) as [(E & _)|(_ & t & [Hmode|(p & Hmode)])].
    - exact (E_ALREADY_not_RUNTIME E).
    - (* MResume *)
      destruct c as [m fr s]. cbn [c_mode] in Hmode. subst m.
      destruct HI as (Hf & HS & (tk & Hg & Hcomp)). cbn [c_mode c_frames c_st] in Hf, HS, Hg, Hcomp.
      destruct Hf as (old & i & r & vs & -> & Hrt & Hlv). cbn [R_of fvals] in HS.
      assert (HtR : ~ In t (fvals vs)).
      { intros Hin. pose proof (wt_ok_fvals res _ _ _ _ (proj2 Hlv) t Hin). lia. }
      destruct (SI_entry _ _ _ _ _ HS Hg) as (_ & ot & Hst & _ & Hp & Hd & Hk). cbn in Hp, Hd, Hk.
      destruct (Hk eq_refl HtR) as (k & K1 & _).
      revert Hm. cbn [step c_mode c_frames c_st]. unfold get_task. rewrite Hg. rewrite K1.
      intros Hm. discriminate Hm.
    - (* MRun *)
      destruct c as [m fr s]. cbn [c_mode] in Hmode. subst m.
      destruct HI as (Hf & HS & Hmo). cbn [c_mode c_frames c_st] in Hf, HS, Hmo.
      destruct Hf as (old & i & r & vs & -> & Hrt & Hlv). cbn [R_of fvals] in HS.
      assert (HtR : ~ In t (fvals vs)).
      { intros Hin. pose proof (wt_ok_fvals res _ _ _ _ (proj2 Hlv) t Hin). lia. }
      destruct (SI_utask _ _ _ t HS (or_introl eq_refl)) as (tk & Hg).
      assert (Hfr : frames_okS res spec (tasks s) MContRet (FCont t old :: FExec i :: FWait r :: vs)).
      { exists t, old, i, r, vs. split; [reflexivity|]. split; [exact Hrt|exact Hlv]. }
      revert Hm. cbn [step c_mode c_frames c_st].
      destruct Hmo as [(Htree & Hst)|(h & k & oh & -> & _)]; [|intros Hm; discriminate Hm].
      unfold get_task. rewrite Hg.
      inversion Htree as [v Ev|v Ev|e Ev|y k Hl Hk Ev|cx k Hc Hk Ev|cx k Hc Hk Ev|q k Hq Hk Ev]; subst p.
      + destruct (finish_taskS res spec t s tk (Ok v) _ (fvals vs) HS HtR Hg Hst Hfr eq_refl) as (Hnc & _).
        cbn zeta in Hnc. rewrite Hnc. intros Hm. discriminate Hm.
      + destruct (finish_taskS res spec t s tk (Ok v) _ (fvals vs) HS HtR Hg Hst Hfr eq_refl) as (Hnc & _).
        cbn zeta in Hnc. rewrite Hnc. intros Hm. discriminate Hm.
      + intros Hm. discriminate Hm.
      + destruct (inst t y s) as [y' s1].
        destruct (get t s1) as [[o1 [tk1|kd ix ky a|o'|]]|]; try (intros Hm; discriminate Hm).
        destruct (futs (extract y')); intros Hm; discriminate Hm.
      + intros Hm. discriminate Hm.
      + intros Hm. discriminate Hm.
      + destruct (create t (FTask q) s) as [h0 s0]. intros Hm. discriminate Hm.
  Qed.

  Lemma ci_prefix n : forall spec c0,
    CI res spec c0 -> quiet P n c0 -> exists spec', CI res spec' (run P n c0).
  Proof.
    induction n as [|n IH]; intros spec c0 HC Hq.
    - exists spec. exact HC.
    - destruct (IH spec c0 HC) as (spec1 & H1); [intros k Hk; apply Hq; lia|].
      rewrite run_succ. apply (s01_step P HP res spec1); [apply Hq; lia|exact H1].
  Qed.

  Lemma ci_unwind_is_guard spec c0 n e :
    CI res spec c0 -> is_unwind (c_mode c0) = false -> quiet P n c0 ->
    c_mode (run P n c0) = MUnwind e ->
    e = E_RUNTIME /\ exists m, n = S m /\ guard_fires P (run P m c0) = true.
  Proof.
    intros HC Hu0 Hq Hm. destruct n as [|m].
    - cbn [run] in Hm. rewrite Hm in Hu0. discriminate Hu0.
    - assert (Hqm : quiet P m c0) by (intros k Hk; apply Hq; lia).
      destruct (ci_prefix m spec c0 HC Hqm) as (spec1 & H1).
      assert (Hum : is_unwind (c_mode (run P m c0)) = false) by (apply Hq; lia).
      rewrite run_succ in Hm.
      destruct (unwind_sources P _ e Hum Hm) as [(-> & _)|(-> & _)].
      + split; [reflexivity|]. exists m. split; [reflexivity|]. apply step_runtime_guard; assumption.
      + exfalso. exact (stree_step_not_already spec1 _ H1 Hum Hm).
  Qed.
End StepS.

Section STree.
  Variable P : params.
  Hypothesis HP : pointwise P.
  Variable p : prog.
  Hypothesis Ht : stree p.

  Let h := fst (create [] (FTask p) (st0 P)).
  Let s1 := snd (create [] (FTask p) (st0 P)).

  Lemma ci_start : exists spec, CI (evals p) spec (start h s1).
  Proof.
    pose proof (SI_create (fun _ => None) _ [] (FTask p) (st0 P) (SI_empty P) (sf_task p Ht)) as HC.
    cbn zeta in HC. fold h s1 in HC. cbn [fexpr_outs] in HC.
    destruct HC as (_ & HS1 & Hnew & _ & _ & _ & Hent).
    exists (spec_add (fun _ => None) h (evals p)).
    apply CI_intro; [| |exists None, (fresh_task p); apply Hent; reflexivity|exact I].
    - exists (evals p). split; [unfold spec_add; rewrite fid_eqb_refl; reflexivity|apply vs_top].
    - apply (SI_ext _ (fun _ => False)); [|exact HS1]. intros x. split; intros [].
  Qed.

  (* Milestone 4: also with synchronous calls the first unwinding is the guard's RuntimeError *)
  Theorem stree_unwind_is_guard n e :
    (forall k, (k < n)%nat -> is_unwind (c_mode (run P k (start h s1))) = false) ->
    c_mode (run P n (start h s1)) = MUnwind e ->
    e = E_RUNTIME /\
    exists m, n = S m /\ c_mode (run P m (start h s1)) = MExecLoop /\
              (p_maxstack P < Z.of_nat (length (tasks (c_st (run P m (start h s1))))))%Z /\
              guard_fires P (run P m (start h s1)) = true.
  Proof.
    intros Hq Hm. destruct ci_start as (spec & HC).
    destruct (ci_unwind_is_guard P HP (evals p) spec (start h s1) n e HC eq_refl Hq Hm) as (-> & m & -> & G).
    split; [reflexivity|]. exists m. split; [reflexivity|].
    destruct (guard_fires_inv P _ G) as (A & B). split; [exact A|]. split; [exact B|exact G].
  Qed.

  Corollary stree_no_unwind_iff_guard_silent n :
    (forall k, (k < n)%nat -> guard_fires P (run P k (start h s1)) = false) -> no_unwind P n (start h s1).
  Proof.
    intros Hg. apply quiet_no_unwind.
    assert (H : forall m, (m <= S n)%nat -> quiet P m (start h s1)).
    { induction m as [|m IH]; intros Hm k Hk; [lia|].
      assert (Hqm : quiet P m (start h s1)) by (apply IH; lia).
      destruct (Nat.eq_dec k m) as [->|Ne]; [|apply Hqm; lia].
      destruct (c_mode (run P m (start h s1))) eqn:Em; try reflexivity. exfalso.
      destruct (stree_unwind_is_guard m e Hqm Em) as (_ & m' & -> & _ & _ & G).
      rewrite Hg in G; [discriminate G|lia]. }
    apply H. lia.
  Qed.

  Theorem async_eq_seq_stree_unless_guard n o :
    c_mode (run P n (start h s1)) = MDone o ->
    o = evals p \/ exists k, (k < n)%nat /\ guard_fires P (run P k (start h s1)) = true.
  Proof.
    intros Hm. destruct (bounded_search (fun k => guard_fires P (run P k (start h s1))) n) as [Hex|Hall].
    - right. exact Hex.
    - left. apply (async_eq_seq_stree P p n o HP Ht); [|exact Hm].
      apply stree_no_unwind_iff_guard_silent. exact Hall.
  Qed.
End STree.

(* ------------------------------------------------------------------ non-vacuity *)
Definition guard_silent_b (P : params) (n : nat) (c : cfg) : bool :=
  forallb (fun k => negb (guard_fires P (run P k c))) (seq 0 n).

Definition few_futures_b (P : params) (n : nat) (c : cfg) : bool :=
  forallb (fun k => Z.leb (top_next (c_st (run P k c))) (p_maxstack P)) (seq 0 (S n)).

(* the demo of MachineC01.v with the default MAX_TASK_STACK_SIZE: the guard is silent for 300 steps, at most
   1000 futures exist, the run ends; with MAX_TASK_STACK_SIZE = 1 the same program trips the guard (the stack
   holds the root and its child task), the first unwinding is E_RUNTIME and the outcome is not eval's *)
Example nounwind_demo :
  let P := mkP [] 1000 false [] in
  let h := fst (create [] (FTask c01_demo) (st0 P)) in
  let s1 := snd (create [] (FTask c01_demo) (st0 P)) in
  guard_silent_b P 300 (start h s1) = true /\ few_futures_b P 300 (start h s1) = true /\
  c_mode (run P 300 (start h s1)) = MDone (Ok (VTuple [VInt 5; VList [VTuple [VInt 7; VInt 1]; VNone]; VInt 9])).
Proof. vm_compute. repeat split. Qed.

Example nounwind_demo_guard :
  let P := mkP [] 1 false [] in
  let h := fst (create [] (FTask c01_demo) (st0 P)) in
  let s1 := snd (create [] (FTask c01_demo) (st0 P)) in
  guard_silent_b P 300 (start h s1) = false /\
  c_mode (run P 300 (start h s1)) = MDone (Err E_RUNTIME).
Proof. vm_compute. repeat split. Qed.

(* the demo of MachineC01S.v (nested synchronous calls): the guard is silent *)
Example nounwind_demo_stree :
  let P := mkP [] 1000 false [] in
  let h := fst (create [] (FTask c01s_demo) (st0 P)) in
  let s1 := snd (create [] (FTask c01s_demo) (st0 P)) in
  guard_silent_b P 60 (start h s1) = true /\
  c_mode (run P 60 (start h s1)) = MDone (Ok (VTuple [VTuple [VTuple [VInt 7; VInt 3]; VInt 1]; VInt 5])).
Proof. vm_compute. repeat split. Qed.
