(* Proofs about the Dispatch model (C09).  Every statement quantifies over ALL argument lists
   (positional list and keyword map of any length, values of any type A, any raise predicate, any
   defaults) and over every decorator x binding cell the decorators are written for ([valid]);
   the finite decorator x binding part is settled by case analysis. *)
From Asynq Require Import Base Dispatch.

(* the receiver the attribute lookup is expected to bind (BClass: the user passes it explicitly) *)
Definition expected_recv (b : binding) : option recv :=
  match b with
  | BFunc | BClass | BSmClass | BSmInst => None
  | BInst => Some RObj
  | BSub => Some RSubObj
  | BCmClass | BCmInst => Some RCls
  | BCmSub | BCmSubInst => Some RSubCls
  | BSub2 => Some RSub2Obj
  | BCmSub2 => Some RSub2Cls
  end.

(* ---------------------------------------------------------------- lookup history *)
(* no lookup writes to the stored decorator object: after any history it is what it was *)
Lemma after_hist_id d s hs : after_hist d s hs = s.
Proof. revert s; induction hs as [|b r IH]; intros s; cbn; auto. Qed.

Lemma get_step_state d s b : snd (get_step d s b) = s.
Proof. reflexivity. Qed.

(* what a lookup hands out does not depend on the lookups made before it *)
Lemma resolve_hist hs d b : resolve hs d b = resolve [] d b.
Proof. unfold resolve. destruct (access b) as [[o c]|]; auto. rewrite after_hist_id. reflexivity. Qed.

Lemma has_asynq_attr_hist hs d b : has_asynq_attr hs d b = has_asynq_attr [] d b.
Proof. unfold has_asynq_attr. rewrite resolve_hist. reflexivity. Qed.
Lemma is_pure_hist hs d b : is_pure hs d b = is_pure [] d b.
Proof. unfold is_pure. rewrite resolve_hist. reflexivity. Qed.
Lemma has_async_hist hs d b : has_async hs d b = has_async [] d b.
Proof. apply has_asynq_attr_hist. Qed.
Lemma is_async_hist hs d b : is_async hs d b = is_async [] d b.
Proof. unfold is_async. rewrite has_asynq_attr_hist, is_pure_hist. reflexivity. Qed.
Lemma get_async_kind_hist hs d b : get_async_kind hs d b = get_async_kind [] d b.
Proof. unfold get_async_kind. rewrite has_asynq_attr_hist, is_pure_hist. reflexivity. Qed.
Lemma get_async_or_sync_kind_hist hs d b : get_async_or_sync_kind hs d b = get_async_or_sync_kind [] d b.
Proof. unfold get_async_or_sync_kind. rewrite has_asynq_attr_hist. reflexivity. Qed.

(* the receiver a lookup binds is a function of THIS lookup's (owner, cls) alone: Python's binding of the
   raw function / classmethod / staticmethod for the class or instance the attribute was looked up through *)
Lemma expected_recv_of_path b :
  expected_recv b = match access b with None => None | Some (owner, cls) => py_get (mtype_of b) owner cls end.
Proof. destruct b; reflexivity. Qed.

Ltac nohist :=
  unfold Dispatch.target_asynq, Dispatch.target_call, Dispatch.has_async, Dispatch.is_async, Dispatch.get_async_kind,
    Dispatch.get_async_or_sync_kind, Dispatch.has_asynq_attr, Dispatch.is_pure in *;
  rewrite ?resolve_hist in *.

(* what the direct call hands back *)
Definition ret_kind (d : deco) : retkind :=
  match d with DPure | DProxyPure => KFuture | _ => KValue end.

Section Proofs.
  Variable A : Type.
  Variable raises : A -> bool.
  Variables dflt_b dflt_k : A.
  Variable cx : ctx.
  Variable hs : list binding.

  Notation arg := (arg A).
  Notation kwargs := (kwargs A).
  Notation effect := (effect A).
  Notation run_fn := (run_fn A raises dflt_b dflt_k).
  Notation async_effect := (async_effect A raises dflt_b dflt_k).
  Notation own_task := (own_task A raises dflt_b dflt_k).
  Notation target_asynq := (target_asynq A raises dflt_b dflt_k hs).
  Notation target_call := (target_call A raises dflt_b dflt_k cx hs).
  Notation async_call_effect := (async_call_effect A raises dflt_b dflt_k cx hs).
  Notation invoke := (invoke A raises dflt_b dflt_k cx hs).
  Notation invoke_ctx := (invoke_ctx A raises dflt_b dflt_k cx hs).
  Notation has_async := (Dispatch.has_async hs).
  Notation is_pure := (Dispatch.is_pure hs).
  Notation is_async := (Dispatch.is_async hs).
  Notation get_async_kind := (Dispatch.get_async_kind hs).
  Notation get_async_or_sync_kind := (Dispatch.get_async_or_sync_kind hs).
  Notation task_frame := (task_frame A).
  Notation prepend := (prepend A).
  Notation finish := (finish A).

  (* effect of the synchronous path on the full positional list *)
  Definition direct_effect (d : deco) (st : style) (bk : bodykind) (pos : list arg) (kw : kwargs) : effect :=
    match d with
    | DPair => run_fn SyncBody st (BK BPlain RetReturn) (ctx_active cx) pos kw
    | _ => async_effect d st bk pos kw
    end.

  Definition eff (x : status * list (call A) * res A) : effect := (snd (fst x), snd x).
  Definition stat (x : status * list (call A) * res A) : status := fst (fst x).

  (* ---------------------------------------------------------------- the receiver is bound exactly once *)

  (* .asynq(ARGS) reaches the asynchronous body with  [receiver] ++ user positionals *)
  Lemma asynq_path d b bk pos kw :
    valid d b = true -> has_async d b = true ->
    target_asynq d b bk pos kw = Some (async_effect d (style_of b) bk (prepend (expected_recv b) pos) kw).
  Proof. intros Hv Ha; nohist; destruct d, b; try discriminate Hv; try discriminate Ha; reflexivity. Qed.

  Lemma asynq_absent d b bk pos kw :
    valid d b = true -> has_async d b = false -> target_asynq d b bk pos kw = None.
  Proof. intros Hv Ha; nohist; destruct d, b; try discriminate Hv; try discriminate Ha; reflexivity. Qed.

  (* the direct call reaches fn (sync_fn for a pair) with  [receiver] ++ user positionals *)
  Lemma call_path d b bk pos kw :
    valid d b = true ->
    target_call d b bk pos kw = (ret_kind d, direct_effect d (style_of b) bk (prepend (expected_recv b) pos) kw).
  Proof. intros Hv; nohist; destruct d, b; try discriminate Hv; reflexivity. Qed.

  Theorem receiver_once d b bk pos kw :
    valid d b = true ->
    target_call d b bk pos kw = (ret_kind d, direct_effect d (style_of b) bk (prepend (expected_recv b) pos) kw) /\
    (has_async d b = true ->
     target_asynq d b bk pos kw = Some (async_effect d (style_of b) bk (prepend (expected_recv b) pos) kw)) /\
    (has_async d b = false -> target_asynq d b bk pos kw = None).
  Proof. intros Hv; split; [|split]; auto using call_path, asynq_path, asynq_absent. Qed.

  (* a method-style body called with the receiver in front = the function-style body on the user's
     arguments, with that receiver recorded: the receiver is consumed once and shifts nothing *)
  Definition with_recv (r : arg) (e : effect) : effect :=
    (map (fun c => match c with CBody t _ a b k => CBody t (Some r) a b k | w => w end) (fst e), snd e).

  Lemma bound_body t st bk act r pos kw :
    st <> SFunc -> run_fn t st bk act (r :: pos) kw = with_recv r (run_fn t SFunc bk act pos kw).
  Proof.
    intros Hs. destruct st; try congruence; unfold Dispatch.run_fn, with_recv;
      destruct (bind3 A dflt_b dflt_k pos kw) as [[[a b] k]|]; reflexivity.
  Qed.

  (* a function-style body run: no receiver, exactly the parameters Python's binding gives *)
  Lemma body_sees_binding t bk act pos kw :
    run_fn t SFunc bk act pos kw =
    match bind3 A dflt_b dflt_k pos kw with
    | None => ([], RErr E_TYPEERROR)
    | Some (a, b, k) => ([CBody t None a b k],
                         if arg_raises A raises a then RErr (900 + tagnum t)
                         else match bret bk with
                              | RetReturn => ROk (VBody t a b k (extra bk act))
                              | RetResult => RResult (VBody t a b k (extra bk act))
                              end)
    end.
  Proof. reflexivity. Qed.

  (* ---------------------------------------------------------------- every fn body runs in a task of its own *)
  (* an AsyncTaskResult still in flight: it would finish whichever task frame it reaches next *)
  Definition res_no_escape (r : res A) : Prop := match r with RResult _ => False | _ => True end.

  Lemma task_frame_no_escape e : res_no_escape (snd (task_frame e)).
  Proof. destruct e as [c [v|x|v]]; exact I. Qed.

  Lemma own_task_no_escape st bk pos kw : res_no_escape (snd (own_task st bk pos kw)).
  Proof. apply task_frame_no_escape. Qed.

  (* result(v); return  and  return v  are the same thing for a body that runs in its own task *)
  Lemma own_task_ret st s pos kw :
    own_task st (BK s RetResult) pos kw = own_task st (BK s RetReturn) pos kw.
  Proof.
    unfold Dispatch.own_task, Dispatch.task_frame, Dispatch.run_fn.
    destruct st; [| destruct pos as [|r rest] | destruct pos as [|r rest]]; try reflexivity;
      match goal with |- context [bind3 A dflt_b dflt_k ?p kw] => destruct (bind3 A dflt_b dflt_k p kw) as [[[a b] k]|] end;
      try reflexivity; cbn; destruct (arg_raises A raises a); reflexivity.
  Qed.

  (* a plain body that does not look at the active task runs the same in any frame *)
  Lemma run_fn_plain_act t st r act1 act2 pos kw :
    run_fn t st (BK BPlain r) act1 pos kw = run_fn t st (BK BPlain r) act2 pos kw.
  Proof. reflexivity. Qed.

  (* ---------------------------------------------------------------- classification *)

  Lemma classify_table d b :
    valid d b = true ->
    has_async d b = negb (is_pure d b) /\
    is_pure d b = (match ret_kind d with KFuture => true | KValue => false end) /\
    is_async d b = true /\
    get_async_kind d b = (if has_async d b then GAsynqAttr else GSelf) /\
    get_async_or_sync_kind d b = get_async_kind d b.
  Proof. intros Hv; nohist; destruct d, b; try discriminate Hv; repeat split. Qed.

  Lemma eff_finish s e : eff (finish s e) = e.
  Proof. destruct e as [c [v|x|v]]; reflexivity. Qed.

  Lemma stat_finish s e :
    stat (finish s e) = match snd e with RErr _ => SRaised | _ => s end.
  Proof. destruct e as [c [v|x|v]]; reflexivity. Qed.

  (* ---------------------------------------------------------------- the forms, in closed form *)
  Section Cell.
    Variables (d : deco) (b : binding) (bk : bodykind) (pos : list arg) (kw : kwargs).
    Hypothesis Hv : valid d b = true.
    Let full := prepend (expected_recv b) pos.
    Let ae := async_effect d (style_of b) bk full kw.
    Let de := direct_effect d (style_of b) bk full kw.
    Let inv f := invoke d b f pos kw bk.

    Lemma forms_with_asynq :
      has_async d b = true ->
      inv AsynqValue = finish SRetFuture ae /\ inv YieldAsynq = finish SRetFuture ae /\
      inv AsyncCall = finish SRetFuture ae /\ inv ViaGetAsync = finish SRetFuture ae /\
      inv ViaGetAsyncOrSync = finish SRetFuture ae /\
      inv Sync = finish SRetValue de /\ inv YieldDirect = finish SNotAFuture de.
    Proof.
      intros Ha. destruct (classify_table d b Hv) as (Hp & Hr & _ & Hg & Hh).
      assert (Hpure : is_pure d b = false) by (rewrite Ha in Hp; destruct (is_pure d b); auto; discriminate).
      assert (Hk : ret_kind d = KValue) by (rewrite Hpure in Hr; destruct (ret_kind d); auto; discriminate).
      subst inv; unfold Dispatch.invoke, via_asynq, via_call, Dispatch.async_call_effect.
      rewrite Hh, Hg, Ha, Hpure, (asynq_path d b bk pos kw Hv Ha), (call_path d b bk pos kw Hv), Hk.
      repeat split; reflexivity.
    Qed.

    Lemma forms_without_asynq :
      has_async d b = false ->
      inv AsynqValue = (SNoAsynqAttr, [], RErr E_ATTR) /\ inv YieldAsynq = (SNoAsynqAttr, [], RErr E_ATTR) /\
      inv Sync = finish SRetFuture ae /\ inv YieldDirect = finish SRetFuture ae /\
      inv AsyncCall = finish SRetFuture ae /\ inv ViaGetAsync = finish SRetFuture ae /\
      inv ViaGetAsyncOrSync = finish SRetFuture ae.
    Proof.
      intros Ha. destruct (classify_table d b Hv) as (Hp & Hr & _ & Hg & Hh).
      assert (Hpure : is_pure d b = true) by (rewrite Ha in Hp; destruct (is_pure d b); auto; discriminate).
      assert (Hk : ret_kind d = KFuture) by (rewrite Hpure in Hr; destruct (ret_kind d); auto; discriminate).
      assert (Hde : de = ae) by (subst de ae; destruct d; try discriminate Hk; reflexivity).
      subst inv; unfold Dispatch.invoke, via_asynq, via_call, Dispatch.async_call_effect.
      rewrite Hh, Hg, Ha, Hpure, (asynq_absent d b bk pos kw Hv Ha), (call_path d b bk pos kw Hv), Hk.
      cbn [snd]. unfold de, ae, full in Hde. rewrite Hde. repeat split; reflexivity.
    Qed.
  End Cell.

  (* ---------------------------------------------------------------- sync_fn *)
  Definition sync_call (c : call A) : call A :=
    match c with CBody _ r a b k => CBody SyncBody r a b k | w => w end.
  Definition sync_res (r : res A) : res A :=
    match r with
    | ROk (VBody _ a b k _) => ROk (VBody SyncBody a b k 0)
    | RErr e => if e =? 901 then RErr 902 else RErr e
    | r => r
    end.
  (* the same run with sync_fn's (plain) body in place of fn's: same receiver, same parameters *)
  Definition as_sync (e : effect) : effect := (map sync_call (fst e), sync_res (snd e)).

  Definition call_tag (c : call A) : option tag :=
    match c with CBody t _ _ _ _ => Some t | CWrap _ _ _ => None end.

  Lemma run_fn_as_sync st bk act pos kw :
    run_fn SyncBody st (BK BPlain RetReturn) act pos kw = as_sync (own_task st bk pos kw).
  Proof.
    unfold Dispatch.own_task, Dispatch.task_frame, Dispatch.run_fn, as_sync.
    destruct st; [| destruct pos as [|r rest] | destruct pos as [|r rest]]; try reflexivity;
      match goal with |- context [bind3 A dflt_b dflt_k ?p kw] => destruct (bind3 A dflt_b dflt_k p kw) as [[[a b] k]|] end;
      try reflexivity; cbn; destruct (arg_raises A raises a); try reflexivity;
      destruct bk as [s [|]]; reflexivity.
  Qed.

  Lemma run_fn_tags t st bk act pos kw :
    Forall (fun c => call_tag c = Some t) (fst (run_fn t st bk act pos kw)).
  Proof.
    unfold Dispatch.run_fn.
    destruct st; [| destruct pos as [|r rest] | destruct pos as [|r rest]]; try (constructor; fail);
      match goal with |- context [bind3 A dflt_b dflt_k ?p kw] => destruct (bind3 A dflt_b dflt_k p kw) as [[[a b] k]|] end;
      cbn; repeat constructor.
  Qed.

  Lemma own_task_tags st bk pos kw :
    Forall (fun c => call_tag c = Some FnBody) (fst (own_task st bk pos kw)).
  Proof. unfold Dispatch.own_task, Dispatch.task_frame; cbn [fst]. apply run_fn_tags. Qed.

  Lemma async_effect_no_sync_body d st bk pos kw :
    Forall (fun c => call_tag c <> Some SyncBody) (fst (async_effect d st bk pos kw)).
  Proof.
    assert (H0 : Forall (fun c => call_tag c <> Some SyncBody) (fst (own_task st bk pos kw))).
    { eapply Forall_impl; [|apply own_task_tags]. cbn. intros c H; rewrite H; discriminate. }
    unfold Dispatch.async_effect. destruct d; auto.
    - constructor; [destruct pos as [|[r|a] p]; cbn; discriminate | exact H0].
    - unfold dup_on_raise. destruct (snd (own_task st bk pos kw)); auto.
      destruct (is_verr e); auto. cbn. apply Forall_app; auto.
    - unfold cpi_guard. destruct pos as [|[r|a] p]; auto. constructor.
  Qed.

  Theorem sync_fn_runs_sync b bk pos kw :
    let s := invoke DPair b Sync pos kw bk in
    let a := invoke DPair b AsynqValue pos kw bk in
    eff s = as_sync (eff a) /\
    stat a = match snd (eff a) with RErr _ => SRaised | _ => SRetFuture end /\
    stat s = match snd (eff s) with RErr _ => SRaised | _ => SRetValue end /\
    Forall (fun c => call_tag c = Some SyncBody) (fst (eff s)) /\
    Forall (fun c => call_tag c = Some FnBody) (fst (eff a)) /\
    invoke DPair b YieldAsynq pos kw bk = a /\ invoke DPair b AsyncCall pos kw bk = a.
  Proof.
    assert (Hv : valid DPair b = true) by reflexivity.
    assert (Ha : has_async DPair b = true) by (nohist; destruct b; reflexivity).
    destruct (forms_with_asynq DPair b bk pos kw Hv Ha) as (H1 & H2 & H3 & _ & _ & H6 & _).
    cbv zeta. rewrite H1, H2, H3, H6, !eff_finish, !stat_finish.
    unfold direct_effect, Dispatch.async_effect.
    repeat split; auto using run_fn_tags, own_task_tags, run_fn_as_sync.
  Qed.

  (* ---------------------------------------------------------------- T1 *)
  Theorem conventions_agree d b bk pos kw :
    valid d b = true ->
    let inv f := invoke d b f pos kw bk in
    (has_async d b = true ->
       inv YieldAsynq = inv AsynqValue /\ inv AsyncCall = inv AsynqValue /\
       (d <> DPair -> eff (inv Sync) = eff (inv AsynqValue)) /\
       (d = DPair -> eff (inv Sync) = as_sync (eff (inv AsynqValue))) /\
       eff (inv AsynqValue) = async_effect d (style_of b) bk (prepend (expected_recv b) pos) kw) /\
    (has_async d b = false ->
       inv AsynqValue = (SNoAsynqAttr, [], RErr E_ATTR) /\ inv YieldAsynq = (SNoAsynqAttr, [], RErr E_ATTR) /\
       inv YieldDirect = inv Sync /\ inv AsyncCall = inv Sync /\
       eff (inv Sync) = async_effect d (style_of b) bk (prepend (expected_recv b) pos) kw).
  Proof.
    intros Hv inv; split; intros Ha.
    - destruct (forms_with_asynq d b bk pos kw Hv Ha) as (H1 & H2 & H3 & _ & _ & H6 & _).
      subst inv; cbv beta. rewrite H1, H2, H3, H6, !eff_finish.
      repeat split; auto.
      + intros Hd. unfold direct_effect. destruct d; try congruence; reflexivity.
      + intros Hd. subst d. unfold direct_effect, Dispatch.async_effect. apply run_fn_as_sync.
    - destruct (forms_without_asynq d b bk pos kw Hv Ha) as (H1 & H2 & H3 & H4 & H5 & _ & _).
      subst inv; cbv beta. rewrite H1, H2, H3, H4, H5, !eff_finish. repeat split; auto.
  Qed.

  (* ---------------------------------------------------------------- T2 *)
  Theorem classify_consistent d b bk pos kw :
    valid d b = true ->
    let inv f := invoke d b f pos kw bk in
    (* has_async_fn  <->  .asynq(ARGS) exists *)
    (has_async d b = true <-> exists e, target_asynq d b bk pos kw = Some e) /\
    (* is_pure_async_fn  <->  the direct call hands back a future *)
    (is_pure d b = true <-> fst (target_call d b bk pos kw) = KFuture) /\
    (* exactly one of the two asynchronous forms exists, and is_async_fn says so *)
    has_async d b = negb (is_pure d b) /\ is_async d b = true /\
    (* get_async_fn / get_async_or_sync_fn pick that form ... *)
    get_async_kind d b = (if has_async d b then GAsynqAttr else GSelf) /\
    get_async_or_sync_kind d b = get_async_kind d b /\
    (* ... and calling what they return is the asynchronous call, always through a future *)
    inv ViaGetAsync = inv AsyncCall /\ inv ViaGetAsyncOrSync = inv AsyncCall /\
    eff (inv AsyncCall) = async_effect d (style_of b) bk (prepend (expected_recv b) pos) kw /\
    stat (inv AsyncCall) = match snd (eff (inv AsyncCall)) with RErr _ => SRaised | _ => SRetFuture end.
  Proof.
    intros Hv inv. destruct (classify_table d b Hv) as (Hp & Hr & Hi & Hg & Hh).
    split; [|split; [|split; [|split; [|split; [|split]]]]]; auto.
    - split.
      + intros Ha. eexists. apply asynq_path; auto.
      + intros [e He]. destruct (has_async d b) eqn:Ha; auto.
        rewrite (asynq_absent d b bk pos kw Hv Ha) in He. discriminate.
    - rewrite (call_path d b bk pos kw Hv). cbn [fst]. rewrite Hr. destruct (ret_kind d); split; congruence.
    - subst inv; cbv beta. destruct (has_async d b) eqn:Ha.
      + destruct (forms_with_asynq d b bk pos kw Hv Ha) as (_ & _ & H3 & H4 & H5 & _ & _).
        rewrite H3, H4, H5, eff_finish, stat_finish. repeat split; auto.
      + destruct (forms_without_asynq d b bk pos kw Hv Ha) as (_ & _ & _ & _ & H5 & H6 & H7).
        rewrite H5, H6, H7, eff_finish, stat_finish. repeat split; auto.
  Qed.

  (* ---------------------------------------------------------------- no future is ever handed back as a value *)
  Fixpoint no_future (v : rval A) : Prop :=
    match v with VFuture => False | VWrapped w => no_future w | VBody _ _ _ _ _ => True end.
  Definition res_no_future (r : res A) : Prop := match r with ROk v | RResult v => no_future v | RErr _ => True end.

  Lemma run_fn_no_future t s k act p kw : res_no_future (snd (run_fn t s k act p kw)).
  Proof.
    unfold Dispatch.run_fn.
    destruct s; [| destruct p as [|r rest] | destruct p as [|r rest]]; try exact I;
      match goal with |- context [bind3 A dflt_b dflt_k ?q kw] => destruct (bind3 A dflt_b dflt_k q kw) as [[[a b] c]|] end;
      try exact I; cbn; destruct (arg_raises A raises a); try exact I; destruct (bret k); exact I.
  Qed.

  Lemma own_task_no_future st bk pos kw : res_no_future (snd (own_task st bk pos kw)).
  Proof.
    pose proof (run_fn_no_future FnBody st bk AOwn pos kw) as H0.
    unfold Dispatch.own_task, Dispatch.task_frame; cbn [snd].
    destruct (snd (run_fn FnBody st bk AOwn pos kw)); exact H0.
  Qed.

  (* lifting a property of the body's outcome through the wrappers of tools.py / make_async_decorator *)
  Lemma async_effect_lift (P : res A -> Prop) d st bk pos kw :
    (forall x, P (RErr x)) ->
    (forall v, P (ROk v) -> P (ROk (VWrapped v))) ->
    P (snd (own_task st bk pos kw)) -> res_no_escape (snd (own_task st bk pos kw)) ->
    P (snd (async_effect d st bk pos kw)).
  Proof.
    intros He Hw H0 Hn.
    unfold Dispatch.async_effect. destruct d; try exact H0.
    - unfold wrap_effect; cbn [snd]. destruct (snd (own_task st bk pos kw)); auto; contradiction.
    - unfold dup_on_raise.
      destruct (snd (own_task st bk pos kw)) eqn:E; try (rewrite E; auto; fail).
      destruct (is_verr e); [cbn|rewrite E]; auto.
    - unfold cpi_guard. destruct pos as [|[r|a] p]; try exact H0. apply He.
  Qed.

  Lemma async_effect_no_future d st bk pos kw : res_no_future (snd (async_effect d st bk pos kw)).
  Proof.
    apply async_effect_lift; [intros; exact I | intros v H; exact H | apply own_task_no_future | apply own_task_no_escape].
  Qed.

  Lemma async_effect_no_escape d st bk pos kw : res_no_escape (snd (async_effect d st bk pos kw)).
  Proof.
    apply async_effect_lift; [intros; exact I | intros; exact I | apply own_task_no_escape | apply own_task_no_escape].
  Qed.

  Lemma sync_body_no_escape st act pos kw :
    res_no_escape (snd (run_fn SyncBody st (BK BPlain RetReturn) act pos kw)).
  Proof.
    unfold Dispatch.run_fn.
    destruct st; [| destruct pos as [|r rest] | destruct pos as [|r rest]]; try exact I;
      match goal with |- context [bind3 A dflt_b dflt_k ?q kw] => destruct (bind3 A dflt_b dflt_k q kw) as [[[a b] c]|] end;
      try exact I; cbn; destruct (arg_raises A raises a); exact I.
  Qed.

  Lemma direct_effect_no_escape d st bk pos kw : res_no_escape (snd (direct_effect d st bk pos kw)).
  Proof.
    unfold direct_effect. destruct d; try apply async_effect_no_escape. apply sync_body_no_escape.
  Qed.

  Theorem no_unresolved_future d b f bk pos kw :
    valid d b = true -> res_no_future (snd (invoke d b f pos kw bk)).
  Proof.
    intros Hv.
    assert (Hf : forall s e, res_no_future (snd e) -> res_no_future (snd (finish s e))).
    { intros s [c [v|x|v]]; cbn; auto. }
    assert (Hd : forall st p, res_no_future (snd (direct_effect d st bk p kw))).
    { intros st p. unfold direct_effect. destruct d; try apply async_effect_no_future. apply run_fn_no_future. }
    destruct (has_async d b) eqn:Ha.
    - destruct (forms_with_asynq d b bk pos kw Hv Ha) as (H1 & H2 & H3 & H4 & H5 & H6 & H7).
      destruct f; rewrite ?H1, ?H2, ?H3, ?H4, ?H5, ?H6, ?H7; apply Hf; auto using async_effect_no_future.
    - destruct (forms_without_asynq d b bk pos kw Hv Ha) as (H1 & H2 & H3 & H4 & H5 & H6 & H7).
      destruct f; rewrite ?H1, ?H2, ?H3, ?H4, ?H5, ?H6, ?H7; try exact I; apply Hf; auto using async_effect_no_future.
  Qed.

  (* ---------------------------------------------------------------- calling context *)
  (* every form, in closed form: finish s e with e one of the two effects, or the AttributeError *)
  Lemma invoke_shape d b f bk pos kw :
    valid d b = true ->
    invoke d b f pos kw bk = (SNoAsynqAttr, [], RErr E_ATTR) \/
    exists s e, invoke d b f pos kw bk = finish s e /\
      (e = async_effect d (style_of b) bk (prepend (expected_recv b) pos) kw \/
       e = direct_effect d (style_of b) bk (prepend (expected_recv b) pos) kw).
  Proof.
    intros Hv. destruct (has_async d b) eqn:Ha.
    - destruct (forms_with_asynq d b bk pos kw Hv Ha) as (H1 & H2 & H3 & H4 & H5 & H6 & H7).
      right. destruct f; rewrite ?H1, ?H2, ?H3, ?H4, ?H5, ?H6, ?H7; eauto.
    - destruct (forms_without_asynq d b bk pos kw Hv Ha) as (H1 & H2 & H3 & H4 & H5 & H6 & H7).
      destruct f; rewrite ?H1, ?H2, ?H3, ?H4, ?H5, ?H6, ?H7; try (left; reflexivity); right; eauto.
  Qed.

  Lemma in_ctx_finish s e :
    res_no_escape (snd e) ->
    in_ctx A cx (finish s e) = (caller_of cx, finish s e) /\ res_no_escape (snd (finish s e)).
  Proof. destruct e as [c [v|x|v]]; cbn; intros H; try contradiction; split; auto. Qed.

  (* no AsyncTaskResult ever leaves a calling form: the task the form is executed in is never finished
     with the callee's value, and at top level no AsyncTaskResult exception comes out *)
  Theorem caller_intact d b f bk pos kw :
    valid d b = true ->
    invoke_ctx d b f pos kw bk = (caller_of cx, invoke d b f pos kw bk) /\
    res_no_escape (snd (invoke d b f pos kw bk)).
  Proof.
    intros Hv. unfold Dispatch.invoke_ctx.
    destruct (invoke_shape d b f bk pos kw Hv) as [H | (s & e & H & [He | He])]; rewrite H.
    - split; [reflexivity | exact I].
    - apply in_ctx_finish. subst e. apply async_effect_no_escape.
    - apply in_ctx_finish. subst e. apply direct_effect_no_escape.
  Qed.

  (* every value a form hands back was computed by fn's body inside a task made for fn (the body saw
     get_active_task() = its own task), or by sync_fn's plain body *)
  Fixpoint rval_own (bk : bodykind) (v : rval A) : Prop :=
    match v with
    | VBody FnBody _ _ _ x => x = extra bk AOwn
    | VBody SyncBody _ _ _ x => x = 0
    | VWrapped w => rval_own bk w
    | VFuture => True
    end.
  Definition res_own (bk : bodykind) (r : res A) : Prop :=
    match r with ROk v | RResult v => rval_own bk v | RErr _ => True end.

  Lemma own_task_own st bk pos kw : res_own bk (snd (own_task st bk pos kw)).
  Proof.
    unfold Dispatch.own_task, Dispatch.task_frame, Dispatch.run_fn.
    destruct st; [| destruct pos as [|r rest] | destruct pos as [|r rest]]; try exact I;
      match goal with |- context [bind3 A dflt_b dflt_k ?q kw] => destruct (bind3 A dflt_b dflt_k q kw) as [[[a b] c]|] end;
      try exact I; cbn; destruct (arg_raises A raises a); try exact I; destruct (bret bk); reflexivity.
  Qed.

  Lemma async_effect_own d st bk pos kw : res_own bk (snd (async_effect d st bk pos kw)).
  Proof.
    apply async_effect_lift; [intros; exact I | intros v H; exact H | apply own_task_own | apply own_task_no_escape].
  Qed.

  Lemma direct_effect_own d st bk pos kw : res_own bk (snd (direct_effect d st bk pos kw)).
  Proof.
    unfold direct_effect. destruct d; try apply async_effect_own.
    unfold Dispatch.run_fn.
    destruct st; [| destruct pos as [|r rest] | destruct pos as [|r rest]]; try exact I;
      match goal with |- context [bind3 A dflt_b dflt_k ?q kw] => destruct (bind3 A dflt_b dflt_k q kw) as [[[a b] c]|] end;
      try exact I; cbn; destruct (arg_raises A raises a); try exact I; reflexivity.
  Qed.

  Theorem body_in_own_task d b f bk pos kw :
    valid d b = true -> res_own bk (snd (invoke d b f pos kw bk)).
  Proof.
    intros Hv.
    assert (Hf : forall s e, res_own bk (snd e) -> res_own bk (snd (finish s e))).
    { intros s [c [v|x|v]]; cbn; auto. }
    destruct (invoke_shape d b f bk pos kw Hv) as [H | (s & e & H & [He | He])]; rewrite H.
    - exact I.
    - apply Hf. subst e. apply async_effect_own.
    - apply Hf. subst e. apply direct_effect_own.
  Qed.

  (* result(v); return  =  return v, for every form *)
  Lemma async_effect_ret d st s pos kw :
    async_effect d st (BK s RetResult) pos kw = async_effect d st (BK s RetReturn) pos kw.
  Proof. unfold Dispatch.async_effect. rewrite own_task_ret. reflexivity. Qed.

  Lemma direct_effect_ret d st s pos kw :
    direct_effect d st (BK s RetResult) pos kw = direct_effect d st (BK s RetReturn) pos kw.
  Proof. unfold direct_effect. destruct d; auto using async_effect_ret. Qed.

  Theorem result_is_return d b f s pos kw :
    valid d b = true ->
    invoke d b f pos kw (BK s RetResult) = invoke d b f pos kw (BK s RetReturn).
  Proof.
    intros Hv. destruct (has_async d b) eqn:Ha.
    - destruct (forms_with_asynq d b (BK s RetResult) pos kw Hv Ha) as (H1 & H2 & H3 & H4 & H5 & H6 & H7).
      destruct (forms_with_asynq d b (BK s RetReturn) pos kw Hv Ha) as (G1 & G2 & G3 & G4 & G5 & G6 & G7).
      destruct f; rewrite ?H1, ?H2, ?H3, ?H4, ?H5, ?H6, ?H7, ?G1, ?G2, ?G3, ?G4, ?G5, ?G6, ?G7,
        ?async_effect_ret, ?direct_effect_ret; reflexivity.
    - destruct (forms_without_asynq d b (BK s RetResult) pos kw Hv Ha) as (H1 & H2 & H3 & H4 & H5 & H6 & H7).
      destruct (forms_without_asynq d b (BK s RetReturn) pos kw Hv Ha) as (G1 & G2 & G3 & G4 & G5 & G6 & G7).
      destruct f; rewrite ?H1, ?H2, ?H3, ?H4, ?H5, ?H6, ?H7, ?G1, ?G2, ?G3, ?G4, ?G5, ?G6, ?G7,
        ?async_effect_ret, ?direct_effect_ret; reflexivity.
  Qed.
End Proofs.

(* the same call gives the same (status, body runs, outcome) wherever it is made: at top level, in a
   generator task, in a plain-bodied task, in a synchronously called nested task *)
Lemma direct_effect_ctx A raises db dk cx1 cx2 d st bk pos kw :
  direct_effect A raises db dk cx1 d st bk pos kw = direct_effect A raises db dk cx2 d st bk pos kw.
Proof. unfold direct_effect. destruct d; reflexivity. Qed.

Theorem context_independent A raises db dk cx hs d b f bk pos kw :
  valid d b = true ->
  invoke A raises db dk cx hs d b f pos kw bk = invoke A raises db dk CTop hs d b f pos kw bk /\
  invoke_ctx A raises db dk cx hs d b f pos kw bk = (caller_of cx, invoke A raises db dk CTop hs d b f pos kw bk).
Proof.
  intros Hv.
  assert (E : invoke A raises db dk cx hs d b f pos kw bk = invoke A raises db dk CTop hs d b f pos kw bk).
  { destruct (has_async hs d b) eqn:Ha.
    - destruct (forms_with_asynq A raises db dk cx hs d b bk pos kw Hv Ha) as (H1 & H2 & H3 & H4 & H5 & H6 & H7).
      destruct (forms_with_asynq A raises db dk CTop hs d b bk pos kw Hv Ha) as (G1 & G2 & G3 & G4 & G5 & G6 & G7).
      destruct f; rewrite ?H1, ?H2, ?H3, ?H4, ?H5, ?H6, ?H7, ?G1, ?G2, ?G3, ?G4, ?G5, ?G6, ?G7,
        ?(direct_effect_ctx A raises db dk cx CTop); reflexivity.
    - destruct (forms_without_asynq A raises db dk cx hs d b bk pos kw Hv Ha) as (H1 & H2 & H3 & H4 & H5 & H6 & H7).
      destruct (forms_without_asynq A raises db dk CTop hs d b bk pos kw Hv Ha) as (G1 & G2 & G3 & G4 & G5 & G6 & G7).
      destruct f; rewrite ?H1, ?H2, ?H3, ?H4, ?H5, ?H6, ?H7, ?G1, ?G2, ?G3, ?G4, ?G5, ?G6, ?G7; reflexivity. }
  split; [exact E|].
  rewrite <- E. apply caller_intact. exact Hv.
Qed.

(* ---------------------------------------------------------------- history independence *)
(* a call made through path b gives the same (status, body runs, outcome), leaves the calling task the same
   and classifies the same whatever lookups of the same attribute (through other classes / instances of the
   hierarchy) were made before it *)
Lemma target_asynq_hist A raises db dk hs d b bk pos kw :
  target_asynq A raises db dk hs d b bk pos kw = target_asynq A raises db dk [] d b bk pos kw.
Proof. unfold target_asynq. rewrite resolve_hist. reflexivity. Qed.

Lemma target_call_hist A raises db dk cx hs d b bk pos kw :
  target_call A raises db dk cx hs d b bk pos kw = target_call A raises db dk cx [] d b bk pos kw.
Proof. unfold target_call. rewrite resolve_hist. reflexivity. Qed.

Theorem history_independent A raises db dk cx hs d b f bk pos kw :
  invoke A raises db dk cx hs d b f pos kw bk = invoke A raises db dk cx [] d b f pos kw bk /\
  invoke_ctx A raises db dk cx hs d b f pos kw bk = invoke_ctx A raises db dk cx [] d b f pos kw bk /\
  (is_async hs d b, is_pure hs d b, has_async hs d b, get_async_kind hs d b, get_async_or_sync_kind hs d b) =
  (is_async [] d b, is_pure [] d b, has_async [] d b, get_async_kind [] d b, get_async_or_sync_kind [] d b).
Proof.
  assert (E : invoke A raises db dk cx hs d b f pos kw bk = invoke A raises db dk cx [] d b f pos kw bk).
  { unfold invoke, via_asynq, via_call, async_call_effect.
    rewrite (get_async_kind_hist hs), (get_async_or_sync_kind_hist hs), (is_pure_hist hs),
      (target_asynq_hist A raises db dk hs), (target_call_hist A raises db dk cx hs). reflexivity. }
  split; [exact E | split].
  - unfold invoke_ctx. rewrite E. reflexivity.
  - rewrite (is_async_hist hs), (is_pure_hist hs), (has_async_hist hs), (get_async_kind_hist hs),
      (get_async_or_sync_kind_hist hs). reflexivity.
Qed.

(* a whole trace of uses of one decorated attribute: every warm-up's outcome is its outcome in isolation *)
Lemma warm_out_hist A raises db dk hs d bk w :
  warm_out A raises db dk hs d bk w = warm_out A raises db dk [] d bk w.
Proof.
  destruct w as [[b a] v]. unfold warm_out. destruct (wform a); auto.
  f_equal. apply history_independent.
Qed.

Theorem trace_independent A raises db dk hs d bk ws :
  run_warm A raises db dk hs d bk ws = map (warm_out A raises db dk [] d bk) ws.
Proof.
  revert hs; induction ws as [|w r IH]; intros hs; cbn [run_warm map]; auto.
  rewrite IH, (warm_out_hist A raises db dk hs). reflexivity.
Qed.

(* every call of the trace and the call under test run the body bound to the class / instance THEY were made
   through: receiver = Python's binding for this lookup's (owner, cls), prepended exactly once *)
Theorem bound_to_own_lookup A raises db dk cx hs d b bk pos kw :
  valid d b = true ->
  let r := match access b with None => None | Some (owner, cls) => py_get (mtype_of b) owner cls end in
  target_call A raises db dk cx hs d b bk pos kw =
    (ret_kind d, direct_effect A raises db dk cx d (style_of b) bk (prepend A r pos) kw) /\
  (has_async hs d b = true ->
   target_asynq A raises db dk hs d b bk pos kw = Some (async_effect A raises db dk d (style_of b) bk (prepend A r pos) kw)).
Proof.
  intros Hv r. subst r. rewrite <- expected_recv_of_path.
  destruct (receiver_once A raises db dk cx hs d b bk pos kw Hv) as (H1 & H2 & _). split; auto.
Qed.

(* the case analysis really covers every cell: the enumerations used by the correspondence are complete *)
Lemma all_decos_complete d : In d all_decos.
Proof. destruct d; cbn; tauto. Qed.
Lemma all_bindings_complete b : In b all_bindings.
Proof. destruct b; cbn; tauto. Qed.
Lemma all_forms_complete f : In f all_forms.
Proof. destruct f; cbn; tauto. Qed.
Lemma all_bodykinds_complete bk : In bk all_bodykinds.
Proof. destruct bk as [[] []]; cbn; tauto. Qed.
Lemma all_ctxs_complete c : In c all_ctxs.
Proof. destruct c; cbn; tauto. Qed.

(* 98 valid decorator x binding cells, swept: the argument-free part of the classification *)
Definition cell_ok (d : deco) (b : binding) : bool :=
  negb (valid d b) ||
  (Bool.eqb (has_async [] d b) (negb (is_pure [] d b)) && is_async [] d b &&
   match get_async_kind [] d b, get_async_or_sync_kind [] d b with
   | GAsynqAttr, GAsynqAttr => has_async [] d b
   | GSelf, GSelf => is_pure [] d b
   | _, _ => false
   end).
Lemma classification_sweep :
  forallb (fun d => forallb (cell_ok d) all_bindings) all_decos = true /\
  length (filter (fun p => valid (fst p) (snd p)) (list_prod all_decos all_bindings)) = 98%nat.
Proof. split; vm_compute; reflexivity. Qed.

(* non-vacuity: the hypotheses are satisfiable and the conclusions talk about real runs *)
Example agree_nonvacuous :
  valid DPair BCmInst = true /\ has_async [BCmSub] DPair BCmInst = true /\
  invoke Z (fun z => z =? 99) 20 30 CGen [BCmSub] DPair BCmInst AsynqValue [AVal 1] [(Kk, AVal 3)] (BK BBatch RetResult) =
    (SRetFuture, [CBody FnBody (Some (AObj RCls)) (AVal 1) (AVal 20) (AVal 3)], ROk (VBody FnBody (AVal 1) (AVal 20) (AVal 3) 7)) /\
  invoke Z (fun z => z =? 99) 20 30 CGen [BCmSub] DPair BCmInst Sync [AVal 1] [(Kk, AVal 3)] (BK BBatch RetResult) =
    (SRetValue, [CBody SyncBody (Some (AObj RCls)) (AVal 1) (AVal 20) (AVal 3)], ROk (VBody SyncBody (AVal 1) (AVal 20) (AVal 3) 0)) /\
  valid DPure BSub = true /\ has_async [] DPure BSub = false /\
  invoke Z (fun z => z =? 99) 20 30 CTop [] DPure BSub AsyncCall [AVal 99] [] (BK BPlain RetReturn) =
    (SRaised, [CBody FnBody (Some (AObj RSubObj)) (AVal 99) (AVal 20) (AVal 30)], RErr 901) /\
  (* a synchronous call from inside a plain-bodied task, body = plain function ending in result(v)
     that looks at get_active_task(): own task (8), value delivered, calling task goes on *)
  invoke_ctx Z (fun z => z =? 99) 20 30 CPlain [BSub2; BClass] DAsynq BInst Sync [AVal 1] [] (BK BPlainOwn RetResult) =
    (CallerOwn, (SRetValue, [CBody FnBody (Some (AObj RObj)) (AVal 1) (AVal 20) (AVal 30)],
                 ROk (VBody FnBody (AVal 1) (AVal 20) (AVal 30) 8))) /\
  (* in_ctx is not vacuous: an escaping AsyncTaskResult would finish the calling task *)
  in_ctx Z CGen (SRetValue, [], RResult (VBody FnBody (AVal 1) (AVal 20) (AVal 30) 9)) =
    (CallerHijacked, (SRetValue, [], ROk (VBody FnBody (AVal 1) (AVal 20) (AVal 30) 9))) /\
  in_ctx Z CTop (SRetValue, [], RResult (VBody FnBody (AVal 1) (AVal 20) (AVal 30) 10)) =
    (CallerNone, (SRaised, [], RErr E_TASKRESULT)).
Proof. repeat split. Qed.

(* the history scenario is not vacuous: a classmethod sync_fn pair first used through the sibling class Sub2
   (synchronously) and through the base class, then called through Sub — each call is bound to its own class *)
Example trace_nonvacuous :
  run_warm Z (fun z => z =? 99) 20 30 [] DPair (BK BPlain RetReturn) [(BCmSub2, WSync, 700); (BCmClass, WGet, 701); (BCmInst, WAsynq, 702)] =
    [Some (SRetValue, [CBody SyncBody (Some (AObj RSub2Cls)) (AVal 700) (AVal 20) (AVal 30)],
           ROk (VBody SyncBody (AVal 700) (AVal 20) (AVal 30) 0));
     None;
     Some (SRetFuture, [CBody FnBody (Some (AObj RCls)) (AVal 702) (AVal 20) (AVal 30)],
           ROk (VBody FnBody (AVal 702) (AVal 20) (AVal 30) 0))] /\
  invoke Z (fun z => z =? 99) 20 30 CTop [BCmSub2; BCmClass; BCmInst] DPair BCmSub Sync [AVal 1] [] (BK BPlain RetReturn) =
    (SRetValue, [CBody SyncBody (Some (AObj RSubCls)) (AVal 1) (AVal 20) (AVal 30)], ROk (VBody SyncBody (AVal 1) (AVal 20) (AVal 30) 0)).
Proof. split; reflexivity. Qed.
