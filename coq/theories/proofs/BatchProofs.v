(* Proofs about the Batch model (C11). *)
From Asynq Require Import Base Batch.
Local Open Scope nat_scope.

(* ------------------------------------------------------------------ projections of the event log *)
Fixpoint item_evs (i : nat) (l : list event) : list outcome :=
  match l with
  | [] => []
  | EItem j o :: r => if Nat.eqb j i then o :: item_evs i r else item_evs i r
  | _ :: r => item_evs i r
  end.

Fixpoint batch_evs (b : nat) (l : list event) : list outcome :=
  match l with
  | [] => []
  | EBatch j o :: r => if Nat.eqb j b then o :: batch_evs b r else batch_evs b r
  | _ :: r => batch_evs b r
  end.

Fixpoint body_evs (b : nat) (l : list event) : list nat :=
  match l with
  | [] => []
  | EBody j a :: r => if Nat.eqb j b then a :: body_evs b r else body_evs b r
  | _ :: r => body_evs b r
  end.

Lemma item_evs_app i l1 l2 : item_evs i (l1 ++ l2) = item_evs i l1 ++ item_evs i l2.
Proof. induction l1 as [|e l1 IH]; cbn; auto. destruct e; auto. destruct (Nat.eqb i0 i); cbn; congruence. Qed.
Lemma batch_evs_app b l1 l2 : batch_evs b (l1 ++ l2) = batch_evs b l1 ++ batch_evs b l2.
Proof. induction l1 as [|e l1 IH]; cbn; auto. destruct e; auto. destruct (Nat.eqb b0 b); cbn; congruence. Qed.
Lemma body_evs_app b l1 l2 : body_evs b (l1 ++ l2) = body_evs b l1 ++ body_evs b l2.
Proof. induction l1 as [|e l1 IH]; cbn; auto. destruct e; auto. destruct (Nat.eqb b0 b); cbn; congruence. Qed.

Definition obs_item (w : world) (i : nat) : list outcome :=
  match iout (itm w i) with Some o => [o] | None => [] end.
Definition obs_batch (w : world) (b : nat) : list outcome :=
  match bout (bat w b) with Some o => [o] | None => [] end.

Lemma snoc_split {A} (l : list A) e l1 y l2 :
  l ++ [e] = l1 ++ y :: l2 ->
  (l = l1 /\ e = y /\ l2 = []) \/ (exists l2', l = l1 ++ y :: l2' /\ l2 = l2' ++ [e]).
Proof.
  revert l1. induction l as [|a l IH]; intros l1 H.
  - destruct l1 as [|b l1]; cbn in H.
    + inversion H; subst. left; auto.
    + inversion H. destruct l1; discriminate.
  - destruct l1 as [|b l1]; cbn in H.
    + inversion H; subst. right. exists l. auto.
    + inversion H; subst. destruct (IH _ H2) as [(A1 & A2 & A3)|(l2' & A1 & A2)].
      * left. subst. auto.
      * right. exists l2'. subst. auto.
Qed.

Ltac upd :=
  cbn [bat itm nb ni active log set_bat set_itm emit] in *; unfold upd in *; cbv beta in *;
  repeat match goal with
  | |- context [Nat.eqb ?a ?b] => destruct (Nat.eqb_spec a b); subst
  | H : context [Nat.eqb ?a ?b] |- _ => destruct (Nat.eqb_spec a b); subst
  end.

(* what a logged re-entrant request may have got: an item asked for its value()/error() while the body of
   its batch runs reports its outcome or gets BatchingError - never the "not computed" marker, never a
   nested flush; flush() called by the body gets BatchingError *)
Definition read_ok (e : event) : Prop :=
  match e with
  | ERead _ _ r => r <> RNotComputed /\ r <> RSkip
  | EReflush _ r => r = RRaise E_BATCHING
  | EBRead _ r => r <> RNotComputed /\ r <> RSkip
  | _ => True
  end.

(* ------------------------------------------------------------------ the invariant
   [x = Some b] means: batch b has just stored its outcome and is inside _computed (its leftover
   items are being completed, its own on_computed has not fired yet). *)
Record inv (x : option nat) (w : world) : Prop := mkInv {
  i_act_lt : active w < nb w;
  i_act_pend : Some (active w) <> x -> bout (bat w (active w)) = None;
  i_ib : forall i, i < ni w -> ibatch (itm w i) < nb w;
  i_listed : forall b i, b < nb w -> In i (bitems (bat w b)) -> i < ni w /\ ibatch (itm w i) = b;
  i_pend : forall i, i < ni w -> iout (itm w i) = None -> In i (bitems (bat w (ibatch (itm w i))));
  i_done : forall i, i < ni w -> Some (ibatch (itm w i)) <> x ->
                     bout (bat w (ibatch (itm w i))) <> None -> iout (itm w i) <> None;
  i_ilog : forall i, i < ni w -> item_evs i (log w) = obs_item w i;
  i_ilog2 : forall i, ni w <= i -> item_evs i (log w) = [];
  i_blog : forall b, b < nb w -> Some b <> x -> batch_evs b (log w) = obs_batch w b;
  i_blog_x : forall b, x = Some b -> batch_evs b (log w) = [] /\ bout (bat w b) <> None /\ b < nb w;
  i_blog2 : forall b, nb w <= b -> batch_evs b (log w) = [];
  i_body : forall b, b < nb w -> length (body_evs b (log w)) = bruns (bat w b) /\ Forall (fun a => a <> b) (body_evs b (log w));
  i_body2 : forall b, nb w <= b -> body_evs b (log w) = [];
  i_order : forall l1 l2 b o i, log w = l1 ++ EBatch b o :: l2 -> i < ni w -> ibatch (itm w i) = b ->
                                item_evs i l1 <> [];
  i_reads : Forall read_ok (log w)
}.

Lemma inv_init : inv None init.
Proof.
  constructor; cbn; intros; try lia; auto; try discriminate.
Qed.

(* no on_computed event of a pending batch is in the log *)
Lemma no_batch_event x w b l1 o l2 :
  inv x w -> bout (bat w b) = None -> log w <> l1 ++ EBatch b o :: l2.
Proof.
  intros I P E.
  assert (batch_evs b (log w) = []) as H.
  { destruct (Nat.lt_ge_cases b (nb w)) as [L|L].
    - destruct x as [c|]. destruct (Nat.eq_dec b c) as [->|N].
      + apply (i_blog_x _ _ I c eq_refl).
      + rewrite (i_blog _ _ I b L) by congruence. unfold obs_batch. now rewrite P.
      + rewrite (i_blog _ _ I b L) by congruence. unfold obs_batch. now rewrite P.
    - apply (i_blog2 _ _ I b L). }
  rewrite E, batch_evs_app in H. cbn in H. rewrite Nat.eqb_refl in H.
  destruct (batch_evs b l1); discriminate.
Qed.

(* ------------------------------------------------------------------ primitives preserve the invariant *)
Lemma inv_complete_item x w i o :
  inv x w -> i < ni w -> iout (itm w i) = None -> inv x (complete_item w i o).
Proof.
  intros I L P. unfold complete_item.
  constructor; cbn; intros.
  - apply I.
  - apply I; auto.
  - upd; cbn; apply I; auto.
  - upd; cbn; apply (i_listed _ _ I); auto.
  - upd; cbn in *; try discriminate. apply I; auto.
  - upd; cbn in *; try discriminate. apply I; auto.
  - rewrite item_evs_app. unfold obs_item; cbn. upd; cbn; try congruence.
    + rewrite (i_ilog _ _ I i0 L). unfold obs_item. rewrite P. reflexivity.
    + rewrite app_nil_r. apply (i_ilog _ _ I); auto.
  - rewrite item_evs_app. cbn. destruct (Nat.eqb_spec i i0); try lia. rewrite app_nil_r. apply (i_ilog2 _ _ I); auto.
  - rewrite batch_evs_app. cbn. rewrite app_nil_r. apply (i_blog _ _ I); auto.
  - rewrite batch_evs_app. cbn. rewrite app_nil_r. apply (i_blog_x _ _ I); auto.
  - rewrite batch_evs_app. cbn. rewrite app_nil_r. apply (i_blog2 _ _ I); auto.
  - rewrite body_evs_app. cbn. rewrite app_nil_r. apply (i_body _ _ I); auto.
  - rewrite body_evs_app. cbn. rewrite app_nil_r. apply (i_body2 _ _ I); auto.
  - apply snoc_split in H as [(A1 & A2 & A3)|(l2' & A1 & A2)]; try discriminate.
    assert (ibatch (itm w i0) = b) by (upd; cbn in *; auto).
    eapply (i_order _ _ I); eauto.
  - apply Forall_app; split; [apply (i_reads _ _ I)|repeat constructor].
Qed.

Lemma finish_items_frame w l o :
  let w' := finish_items w l o in
  bat w' = bat w /\ nb w' = nb w /\ ni w' = ni w /\ active w' = active w /\
  (forall i, ibatch (itm w' i) = ibatch (itm w i)) /\
  (forall i, iresult (itm w' i) = iresult (itm w i)) /\
  (forall i oc, iout (itm w i) = Some oc -> iout (itm w' i) = Some oc) /\
  (forall i, iout (itm w i) = None -> In i l -> iout (itm w' i) = Some o) /\
  (forall i, iout (itm w i) = None -> ~ In i l -> iout (itm w' i) = None).
Proof.
  revert w. induction l as [|j l IH]; intros w; cbn.
  - repeat split; auto. intros; tauto.
  - destruct (iout (itm w j)) eqn:E.
    + destruct (IH w) as (A1 & A2 & A3 & A4 & A5 & A5' & A6 & A7 & A8). repeat split; auto;
        try (intros i Hi [->|Hl]; [congruence|auto]); try (intros i Hi Hn; apply A8; auto; tauto).
    + destruct (IH (complete_item w j o)) as (A1 & A2 & A3 & A4 & A5 & A5' & A6 & A7 & A8). cbn in *.
      repeat split; auto.
      * intros i. rewrite A5. upd; auto.
      * intros i. rewrite A5'. upd; auto.
      * intros i oc Hi. apply A6. upd; cbn; congruence.
      * intros i Hi [->|Hl].
        -- apply A6. upd; cbn; congruence.
        -- destruct (Nat.eq_dec j i); subst.
           ++ apply A6. upd; cbn; congruence.
           ++ apply A7; auto. upd; cbn; congruence.
      * intros i Hi Hn. apply A8; auto. upd; cbn; try congruence. tauto.
Qed.

Lemma inv_finish_items x l o : forall w,
  inv x w -> (forall i, In i l -> i < ni w) -> inv x (finish_items w l o).
Proof.
  induction l as [|j l IH]; intros w I H; cbn; auto.
  destruct (iout (itm w j)) eqn:E.
  - apply IH; auto. intros; apply H; cbn; auto.
  - apply IH.
    + apply inv_complete_item; auto. apply H; cbn; auto.
    + intros. cbn. apply H; cbn; auto.
Qed.

(* updating only the counters of a batch, and logging a neutral event *)
Lemma inv_counters x w b r c e :
  inv x w -> b < nb w ->
  (forall i, item_evs i [e] = []) -> (forall j, batch_evs j [e] = []) ->
  (forall j, j <> b -> body_evs j [e] = []) ->
  (length (body_evs b (log w ++ [e])) = r /\ Forall (fun a => a <> b) (body_evs b (log w ++ [e]))) ->
  (forall l1 l2 c o, log w ++ [e] = l1 ++ EBatch c o :: l2 -> exists l2', log w = l1 ++ EBatch c o :: l2') ->
  read_ok e ->
  inv x (emit (set_bat w b (mkB (bitems (bat w b)) (bout (bat w b)) r c)) e).
Proof.
  intros I L E1 E2 E3 E4 E5 RO.
  constructor; cbn; intros.
  - apply (i_act_lt _ _ I).
  - upd; cbn; apply (i_act_pend _ _ I); auto.
  - apply (i_ib _ _ I); auto.
  - upd; cbn in *; apply (i_listed _ _ I); auto.
  - upd; cbn; apply (i_pend _ _ I); auto.
  - upd; cbn in *; apply (i_done _ _ I); auto.
  - rewrite item_evs_app, E1, app_nil_r. apply (i_ilog _ _ I); auto.
  - rewrite item_evs_app, E1, app_nil_r. apply (i_ilog2 _ _ I); auto.
  - rewrite batch_evs_app, E2, app_nil_r. unfold obs_batch; cbn. upd; cbn; apply (i_blog _ _ I); auto.
  - rewrite batch_evs_app, E2, app_nil_r. upd; cbn; apply (i_blog_x _ _ I); auto.
  - rewrite batch_evs_app, E2, app_nil_r. apply (i_blog2 _ _ I); auto.
  - upd; cbn; auto. rewrite body_evs_app, E3, app_nil_r by auto. apply (i_body _ _ I); auto.
  - rewrite body_evs_app, E3, app_nil_r by lia. apply (i_body2 _ _ I); auto.
  - apply E5 in H as (l2' & H). eapply (i_order _ _ I); eauto.
  - apply Forall_app; split; [apply (i_reads _ _ I)|repeat constructor; auto].
Qed.

(* logging an event that is no announcement, no body entry *)
Definition neutral (e : event) : Prop :=
  match e with ERead _ _ _ | EReflush _ _ | EBRead _ _ => True | _ => False end.

Lemma inv_emit x w e : inv x w -> neutral e -> read_ok e -> inv x (emit w e).
Proof.
  intros I N RO.
  assert (E1 : forall i, item_evs i [e] = []) by (destruct e; cbn in N; try tauto; reflexivity).
  assert (E2 : forall j, batch_evs j [e] = []) by (destruct e; cbn in N; try tauto; reflexivity).
  assert (E3 : forall j, body_evs j [e] = []) by (destruct e; cbn in N; try tauto; reflexivity).
  constructor; cbn; intros.
  - apply (i_act_lt _ _ I).
  - apply (i_act_pend _ _ I); auto.
  - apply (i_ib _ _ I); auto.
  - apply (i_listed _ _ I); auto.
  - apply (i_pend _ _ I); auto.
  - apply (i_done _ _ I); auto.
  - rewrite item_evs_app, E1, app_nil_r. apply (i_ilog _ _ I); auto.
  - rewrite item_evs_app, E1, app_nil_r. apply (i_ilog2 _ _ I); auto.
  - rewrite batch_evs_app, E2, app_nil_r. apply (i_blog _ _ I); auto.
  - rewrite batch_evs_app, E2, app_nil_r. apply (i_blog_x _ _ I); auto.
  - rewrite batch_evs_app, E2, app_nil_r. apply (i_blog2 _ _ I); auto.
  - rewrite body_evs_app, E3, app_nil_r. apply (i_body _ _ I); auto.
  - rewrite body_evs_app, E3, app_nil_r. apply (i_body2 _ _ I); auto.
  - apply snoc_split in H as [(A1 & A2 & A3)|(l2' & A1 & A2)].
    + subst e. cbn in N. tauto.
    + eapply (i_order _ _ I); eauto.
  - apply Forall_app; split; [apply (i_reads _ _ I)|repeat constructor; auto].
Qed.

Lemma inv_cancel_hook x w b : inv x w -> b < nb w -> inv x (call_cancel_hook w b).
Proof.
  intros I L. unfold call_cancel_hook. apply inv_counters; auto.
  - rewrite body_evs_app. cbn. rewrite app_nil_r. apply I; auto.
  - intros. apply snoc_split in H as [(A1 & A2 & A3)|(l2' & A1 & A2)]; try discriminate. eauto.
  - cbn. auto.
Qed.

Lemma inv_switch x w b : inv x w -> inv x (switch w b) /\ (b < nb w -> active (switch w b) <> b).
Proof.
  intros I. unfold switch. destruct (Nat.eqb_spec (active w) b) as [E|E].
  - split; [|cbn; lia].
    constructor; cbn; intros.
    + lia.
    + upd; auto. lia.
    + pose proof (i_ib _ _ I i H). lia.
    + upd; cbn in *; try tauto. apply (i_listed _ _ I); auto. lia.
    + pose proof (i_ib _ _ I i H). upd; try lia. apply (i_pend _ _ I); auto.
    + pose proof (i_ib _ _ I i H). upd; try lia. apply (i_done _ _ I); auto.
    + apply (i_ilog _ _ I); auto.
    + apply (i_ilog2 _ _ I); auto.
    + unfold obs_batch; cbn. upd; cbn.
      * apply (i_blog2 _ _ I); auto.
      * apply (i_blog _ _ I); auto. lia.
    + destruct (i_blog_x _ _ I b0 H) as (A1 & A2 & A3). upd; try lia. repeat split; auto.
    + apply (i_blog2 _ _ I); lia.
    + upd; cbn.
      * rewrite (i_body2 _ _ I) by lia. cbn. auto.
      * apply (i_body _ _ I); lia.
    + apply (i_body2 _ _ I); lia.
    + eapply (i_order _ _ I); eauto.
    + apply (i_reads _ _ I).
  - split; auto.
Qed.

Lemma inv_new_item w b v :
  inv None w -> b < nb w -> inv None (fst (new_item w b v)).
Proof.
  intros I L. unfold new_item. destruct (bout (bat w b)) eqn:P; cbn; auto.
  constructor; cbn; intros.
  - apply (i_act_lt _ _ I).
  - upd; cbn; auto. apply (i_act_pend _ _ I); auto.
  - upd; cbn; auto. apply (i_ib _ _ I); lia.
  - upd; cbn in *; try (apply in_app_or in H0 as [H0|[H0|[]]]); subst;
      try (apply (i_listed _ _ I) in H0; [|assumption]; destruct H0); split; try lia; auto.
  - upd; cbn in *; try lia.
    + apply in_or_app; right; cbn; auto.
    + apply in_or_app; left. apply (i_pend _ _ I); auto. lia.
    + apply (i_pend _ _ I); auto. lia.
  - upd; cbn in *; try congruence; apply (i_done _ _ I); auto; lia.
  - rewrite item_evs_app. cbn. rewrite app_nil_r. unfold obs_item; cbn. upd; cbn.
    + apply (i_ilog2 _ _ I); lia.
    + apply (i_ilog _ _ I); lia.
  - rewrite item_evs_app. cbn. rewrite app_nil_r. apply (i_ilog2 _ _ I); lia.
  - rewrite batch_evs_app. cbn. rewrite app_nil_r. unfold obs_batch; cbn. upd; cbn.
    + rewrite (i_blog _ _ I) by auto. unfold obs_batch. now rewrite P.
    + apply (i_blog _ _ I); auto.
  - discriminate.
  - rewrite batch_evs_app. cbn. rewrite app_nil_r. apply (i_blog2 _ _ I); lia.
  - rewrite body_evs_app. cbn. rewrite app_nil_r. upd; cbn; apply (i_body _ _ I); auto.
  - rewrite body_evs_app. cbn. rewrite app_nil_r. apply (i_body2 _ _ I); auto.
  - apply snoc_split in H as [(A1 & A2 & A3)|(l2' & A1 & A2)]; try discriminate.
    upd; cbn in *.
    + exfalso. eapply (no_batch_event _ _ _ _ _ _ I P); eauto.
    + eapply (i_order _ _ I); eauto. lia.
  - apply Forall_app; split; [apply (i_reads _ _ I)|repeat constructor].
Qed.

Lemma inv_item_set w i o : inv None w -> i < ni w -> inv None (fst (item_set w i o)).
Proof.
  intros I L. unfold item_set. destruct (iout (itm w i)) eqn:E; cbn; auto.
  apply inv_complete_item; auto.
Qed.

(* storing the outcome of a pending batch opens the exempted phase *)
Lemma inv_store w b o :
  inv None w -> b < nb w -> bout (bat w b) = None ->
  inv (Some b) (set_bat w b (mkB (bitems (bat w b)) (Some o) (bruns (bat w b)) (bcancels (bat w b)))).
Proof.
  intros I L P. constructor; cbn; intros.
  - apply (i_act_lt _ _ I).
  - upd; cbn; try congruence. apply (i_act_pend _ _ I); discriminate.
  - apply (i_ib _ _ I); auto.
  - upd; cbn in *; apply (i_listed _ _ I); auto.
  - upd; cbn; apply (i_pend _ _ I); auto.
  - upd; cbn in *; try congruence. apply (i_done _ _ I); auto. discriminate.
  - apply (i_ilog _ _ I); auto.
  - apply (i_ilog2 _ _ I); auto.
  - unfold obs_batch. upd; cbn; try congruence. apply (i_blog _ _ I); auto. discriminate.
  - inversion H; subst. upd; cbn; try congruence. repeat split; auto; try discriminate.
    rewrite (i_blog _ _ I) by (auto; discriminate). unfold obs_batch. now rewrite P.
  - apply (i_blog2 _ _ I); auto.
  - upd; cbn; apply (i_body _ _ I); auto.
  - apply (i_body2 _ _ I); auto.
  - eapply (i_order _ _ I); eauto.
  - apply (i_reads _ _ I).
Qed.

(* the batch's own on_computed closes the phase, once every item of the batch is complete *)
Lemma inv_announce w b o :
  inv (Some b) w -> bout (bat w b) = Some o -> active w <> b ->
  (forall i, i < ni w -> ibatch (itm w i) = b -> iout (itm w i) <> None) ->
  inv None (emit w (EBatch b o)).
Proof.
  intros I P A D. destruct (i_blog_x _ _ I b eq_refl) as (X1 & X2 & X3).
  constructor; cbn; intros.
  - apply (i_act_lt _ _ I).
  - apply (i_act_pend _ _ I). congruence.
  - apply (i_ib _ _ I); auto.
  - apply (i_listed _ _ I); auto.
  - apply (i_pend _ _ I); auto.
  - destruct (Nat.eq_dec (ibatch (itm w i)) b) as [E|E]; auto. apply (i_done _ _ I); auto. congruence.
  - rewrite item_evs_app. cbn. rewrite app_nil_r. apply (i_ilog _ _ I); auto.
  - rewrite item_evs_app. cbn. rewrite app_nil_r. apply (i_ilog2 _ _ I); auto.
  - rewrite batch_evs_app. cbn. destruct (Nat.eqb_spec b b0); subst.
    + rewrite X1. unfold obs_batch. cbn. now rewrite P.
    + rewrite app_nil_r. apply (i_blog _ _ I); auto. congruence.
  - discriminate.
  - rewrite batch_evs_app. cbn. destruct (Nat.eqb_spec b b0); subst; try lia.
    rewrite app_nil_r. apply (i_blog2 _ _ I); auto.
  - rewrite body_evs_app. cbn. rewrite app_nil_r. apply (i_body _ _ I); auto.
  - rewrite body_evs_app. cbn. rewrite app_nil_r. apply (i_body2 _ _ I); auto.
  - apply snoc_split in H as [(A1 & A2 & A3)|(l2' & A1 & A2)].
    + inversion A2; subst. rewrite (i_ilog _ _ I) by auto. unfold obs_item.
      specialize (D i H0 eq_refl). destruct (iout (itm w i)); congruence.
    + eapply (i_order _ _ I); eauto.
  - apply Forall_app; split; [apply (i_reads _ _ I)|repeat constructor].
Qed.

Lemma inv_batch_computed w b o :
  inv None w -> b < nb w -> bout (bat w b) = None ->
  inv None (batch_computed w b o) /\ bout (bat (batch_computed w b o) b) = Some o.
Proof.
  intros I L P. unfold batch_computed.
  set (w1 := set_bat w b _).
  assert (I1 : inv (Some b) w1) by (apply inv_store; auto).
  assert (L1 : b < nb w1) by (cbn; auto).
  destruct (inv_switch (Some b) w1 b I1) as (I2 & A2). specialize (A2 L1).
  set (w2 := switch w1 b) in *.
  assert (L2 : b < nb w2) by (unfold w2, switch; destruct (Nat.eqb (active w1) b); cbn; lia).
  assert (B2 : bout (bat w2 b) = Some o /\ bitems (bat w2 b) = bitems (bat w b)).
  { unfold w2, switch. destruct (Nat.eqb (active w1) b); cbn; upd; cbn; auto; lia. }
  set (w3 := match o with Ok _ => w2 | Err _ => call_cancel_hook w2 b end).
  assert (I3 : inv (Some b) w3) by (unfold w3; destruct o; auto; apply inv_cancel_hook; auto).
  assert (F3 : nb w3 = nb w2 /\ ni w3 = ni w2 /\ active w3 = active w2 /\ itm w3 = itm w2 /\
               bout (bat w3 b) = Some o /\ bitems (bat w3 b) = bitems (bat w b)).
  { unfold w3; destruct o; cbn; repeat split; try tauto; upd; cbn; tauto. }
  destruct F3 as (F31 & F32 & F33 & F34 & F35 & F36).
  pose proof (finish_items_frame w3 (bitems (bat w3 b)) (leftover o)) as F. cbn zeta in F.
  set (w4 := finish_items w3 (bitems (bat w3 b)) (leftover o)) in *.
  destruct F as (G1 & G2 & G3 & G4 & G5 & G5' & G6 & G7 & G8).
  assert (I4 : inv (Some b) w4).
  { apply inv_finish_items; auto. intros i Hi. apply (i_listed _ _ I3 b i); auto. lia. }
  split.
  - apply inv_announce; auto.
    + rewrite G1. auto.
    + rewrite G4, F33. auto.
    + intros i Li Bi. rewrite G3 in Li. rewrite G5 in Bi.
      destruct (iout (itm w3 i)) eqn:E.
      * rewrite (G6 _ _ E). discriminate.
      * pose proof (i_pend _ _ I3 i Li E) as Q. rewrite Bi in Q. rewrite (G7 _ E Q). discriminate.
  - cbn. rewrite G1. auto.
Qed.

(* ------------------------------------------------------------------ what never changes: extension *)
Record ext (w w' : world) : Prop := mkExt {
  e_nb : nb w <= nb w';
  e_ni : ni w <= ni w';
  e_bout : forall b o, b < nb w -> bout (bat w b) = Some o -> bout (bat w' b) = Some o;
  e_iout : forall i o, i < ni w -> iout (itm w i) = Some o -> iout (itm w' i) = Some o;
  e_ibatch : forall i, i < ni w -> ibatch (itm w' i) = ibatch (itm w i);
  e_runs : forall b, b < nb w -> bruns (bat w' b) = bruns (bat w b);
  e_newruns : forall b, nb w <= b -> b < nb w' -> bruns (bat w' b) = 0;
  e_log : exists l, log w' = log w ++ l
}.

Lemma ext_refl w : ext w w.
Proof. constructor; auto. intros; lia. exists []. now rewrite app_nil_r. Qed.

Lemma ext_trans w1 w2 w3 : ext w1 w2 -> ext w2 w3 -> ext w1 w3.
Proof.
  intros A B. constructor; intros.
  - pose proof (e_nb _ _ A); pose proof (e_nb _ _ B); lia.
  - pose proof (e_ni _ _ A); pose proof (e_ni _ _ B); lia.
  - apply (e_bout _ _ B). pose proof (e_nb _ _ A); lia. apply (e_bout _ _ A); auto.
  - apply (e_iout _ _ B). pose proof (e_ni _ _ A); lia. apply (e_iout _ _ A); auto.
  - rewrite (e_ibatch _ _ B). apply (e_ibatch _ _ A); auto. pose proof (e_ni _ _ A); lia.
  - rewrite (e_runs _ _ B). apply (e_runs _ _ A); auto. pose proof (e_nb _ _ A); lia.
  - destruct (Nat.lt_ge_cases b (nb w2)).
    + rewrite (e_runs _ _ B) by auto. apply (e_newruns _ _ A); auto.
    + apply (e_newruns _ _ B); auto.
  - destruct (e_log _ _ A) as (l1 & E1). destruct (e_log _ _ B) as (l2 & E2).
    exists (l1 ++ l2). rewrite E2, E1. now rewrite app_assoc.
Qed.

Ltac ext_base :=
  constructor; cbn; intros; auto;
  try (upd; cbn in *; auto; try congruence; try lia; fail);
  try (eexists; reflexivity); try (exists []; now rewrite app_nil_r).

Lemma ext_complete_item w i o : iout (itm w i) = None -> ext w (complete_item w i o).
Proof. intros P. unfold complete_item. ext_base. Qed.

Lemma ext_finish_items l o : forall w, ext w (finish_items w l o).
Proof.
  induction l as [|j l IH]; intros w; cbn. apply ext_refl.
  destruct (iout (itm w j)) eqn:E; [apply IH|].
  eapply ext_trans; [apply (ext_complete_item w j o E)|apply IH].
Qed.

Lemma ext_new_item w b v : ext w (fst (new_item w b v)).
Proof.
  unfold new_item. destruct (bout (bat w b)) eqn:P; cbn. apply ext_refl. ext_base.
Qed.

Lemma ext_item_set w i o : ext w (fst (item_set w i o)).
Proof.
  unfold item_set. destruct (iout (itm w i)) eqn:P; cbn. apply ext_refl. apply ext_complete_item; auto.
Qed.

Lemma ext_switch w b : ext w (switch w b).
Proof. unfold switch. destruct (Nat.eqb (active w) b). ext_base. apply ext_refl. Qed.

Lemma ext_cancel_hook w b : ext w (call_cancel_hook w b).
Proof. unfold call_cancel_hook. ext_base. Qed.

Lemma ext_emit w e : ext w (emit w e).
Proof. ext_base. Qed.

Lemma ext_batch_computed w b o : bout (bat w b) = None -> ext w (batch_computed w b o).
Proof.
  intros P. unfold batch_computed.
  set (w1 := set_bat w b _).
  assert (X1 : ext w w1) by (unfold w1; ext_base).
  pose proof (ext_switch w1 b) as X2.
  set (w2 := switch w1 b) in *.
  assert (X3 : ext w2 (match o with Ok _ => w2 | Err _ => call_cancel_hook w2 b end))
    by (destruct o; [apply ext_refl|apply ext_cancel_hook]).
  set (w3 := match o with Ok _ => w2 | Err _ => call_cancel_hook w2 b end) in *.
  eapply ext_trans; [|apply ext_emit]. eapply ext_trans; [|apply ext_finish_items].
  eapply ext_trans; [exact X1|]. eapply ext_trans; [exact X2|exact X3].
Qed.

Lemma ext_cancel w b oe : ext w (cancel w b oe).
Proof. unfold cancel. destruct (bout (bat w b)) eqn:P. apply ext_refl. apply ext_batch_computed; auto. Qed.

Lemma ext_set_all l : forall w, ext w (fst (set_all w l)).
Proof.
  induction l as [|i l IH]; intros w; cbn. apply ext_refl.
  pose proof (ext_item_set w i (Ok (iresult (itm w i)))) as A.
  destruct (item_set w i (Ok (iresult (itm w i)))) as [w1 [e|]]; cbn in *; auto.
  eapply ext_trans; eauto.
Qed.

Lemma ext_exec1 w b a : ext w (fst (exec1 w b a)).
Proof.
  destruct a; cbn; try apply ext_refl.
  - apply ext_set_all.
  - destruct (nth_error _ k); cbn. apply ext_item_set. apply ext_refl.
  - destruct (nth_error _ k); cbn. apply ext_item_set. apply ext_refl.
  - apply ext_new_item.
  - apply ext_cancel.
  - destruct (nth_error _ k); cbn. apply ext_emit. apply ext_refl.
  - apply ext_emit.
  - destruct (nth_error _ k); cbn; [|apply ext_refl].
    pose proof (ext_item_set w n (Ok v)) as A.
    destruct (item_set w n (Ok v)) as [w1 [e|]]; cbn in *; auto.
    destruct (nth_error _ j); cbn; auto. eapply ext_trans; [exact A|apply ext_emit].
  - apply ext_emit.
Qed.

Lemma ext_exec b acts : forall w, ext w (fst (exec w b acts)).
Proof.
  induction acts as [|a acts IH]; intros w; cbn. apply ext_refl.
  pose proof (ext_exec1 w b a) as A.
  destruct (exec1 w b a) as [w1 [e|]]; cbn in *; auto.
  eapply ext_trans; eauto.
Qed.

(* ------------------------------------------------------------------ the body and _compute preserve the invariant *)
Lemma inv_cancel w b oe : inv None w -> b < nb w -> inv None (cancel w b oe).
Proof.
  intros I L. unfold cancel. destruct (bout (bat w b)) eqn:P; auto. apply inv_batch_computed; auto.
Qed.

Lemma inv_set_all l : forall w, inv None w -> (forall i, In i l -> i < ni w) -> inv None (fst (set_all w l)).
Proof.
  induction l as [|i l IH]; intros w I H; cbn; auto.
  pose proof (inv_item_set w i (Ok (iresult (itm w i))) I (H i (or_introl eq_refl))) as A.
  pose proof (ext_item_set w i (Ok (iresult (itm w i)))) as X.
  destruct (item_set w i (Ok (iresult (itm w i)))) as [w1 [e|]]; cbn in *; auto.
  apply IH; auto. intros j Hj. pose proof (e_ni _ _ X). specialize (H j (or_intror Hj)). lia.
Qed.

(* a request for value()/error() of an item of the batch whose body is running *)
Lemma sibling_read_spec w b i kd :
  inv None w -> b < nb w -> In i (bitems (bat w b)) ->
  let r := sibling_read w b i kd in
  r <> RNotComputed /\ r <> RSkip /\
  (iout (itm w i) = None -> bout (bat w b) = None /\ r = RRaise E_BATCHING) /\
  (forall o, iout (itm w i) = Some o -> r = rep_of kd (Some o)).
Proof.
  intros I L H. cbn zeta. destruct (i_listed _ _ I b i L H) as (Li & Bi).
  unfold sibling_read. rewrite Bi. destruct (iout (itm w i)) as [o|] eqn:E.
  - repeat split; try discriminate.
    + destruct kd, o; cbn; discriminate.
    + destruct kd, o; cbn; discriminate.
    + intros o' Ho. inversion Ho; subst. reflexivity.
  - assert (P : bout (bat w b) = None).
    { destruct (bout (bat w b)) eqn:Q; auto. exfalso.
      apply (i_done _ _ I i Li); try discriminate; rewrite ?Bi; congruence. }
    rewrite P, Nat.eqb_refl. repeat split; try discriminate; auto.
Qed.

Lemma batch_reread_ok w b kd : batch_reread w b kd <> RNotComputed /\ batch_reread w b kd <> RSkip.
Proof. unfold batch_reread. destruct (bout (bat w b)) as [[?|?]|], kd; cbn; split; discriminate. Qed.

Lemma inv_exec1 w b a : inv None w -> b < nb w -> inv None (fst (exec1 w b a)).
Proof.
  intros I L. destruct a; cbn; auto.
  - apply inv_set_all; auto. intros i Hi. apply (i_listed _ _ I b i); auto.
  - destruct (nth_error _ k) eqn:E; cbn; auto. apply inv_item_set; auto.
    apply nth_error_In in E. apply (i_listed _ _ I b n); auto.
  - destruct (nth_error _ k) eqn:E; cbn; auto. apply inv_item_set; auto.
    apply nth_error_In in E. apply (i_listed _ _ I b n); auto.
  - apply inv_new_item; auto. apply I.
  - apply inv_cancel; auto.
  - destruct (nth_error _ k) eqn:E; cbn; auto. apply inv_emit; cbn; auto.
    apply nth_error_In in E. destruct (sibling_read_spec w b n kd I L E) as (A1 & A2 & _). auto.
  - apply inv_emit; cbn; auto.
  - destruct (nth_error _ k) eqn:E; cbn; auto.
    assert (A : inv None (fst (item_set w n (Ok v)))).
    { apply inv_item_set; auto. apply nth_error_In in E. apply (i_listed _ _ I b n); auto. }
    pose proof (ext_item_set w n (Ok v)) as X.
    destruct (item_set w n (Ok v)) as [w1 [e|]]; cbn in *; auto.
    destruct (nth_error _ j) eqn:E2; cbn; auto. apply inv_emit; cbn; auto.
    apply nth_error_In in E2. pose proof (e_nb _ _ X).
    destruct (sibling_read_spec w1 b n0 kd A ltac:(lia) E2) as (A1 & A2 & _). auto.
  - apply inv_emit; cbn; auto. apply batch_reread_ok.
Qed.

Lemma inv_exec b acts : forall w, inv None w -> b < nb w -> inv None (fst (exec w b acts)).
Proof.
  induction acts as [|a acts IH]; intros w I L; cbn; auto.
  pose proof (inv_exec1 w b a I L) as A. pose proof (ext_exec1 w b a) as X.
  destruct (exec1 w b a) as [w1 [e|]]; cbn in *; auto.
  apply IH; auto. pose proof (e_nb _ _ X). lia.
Qed.

Lemma inv_enter w b :
  inv None w -> b < nb w ->
  inv None (enter w b) /\ active (enter w b) <> b /\ b < nb (enter w b) /\
  bout (bat (enter w b) b) = bout (bat w b) /\
  bruns (bat (enter w b) b) = S (bruns (bat w b)) /\
  (forall c, c < nb w -> c <> b -> bruns (bat (enter w b) c) = bruns (bat w c)) /\
  (forall c o, c < nb w -> bout (bat w c) = Some o -> bout (bat (enter w b) c) = Some o) /\
  nb w <= nb (enter w b) /\ ni (enter w b) = ni w /\ itm (enter w b) = itm w /\
  (exists l, log (enter w b) = log w ++ l) /\
  (forall c, nb w <= c -> c < nb (enter w b) -> bruns (bat (enter w b) c) = 0).
Proof.
  intros I L. unfold enter.
  destruct (inv_switch None w b I) as (I1 & A1). specialize (A1 L).
  pose proof (ext_switch w b) as X.
  set (w1 := switch w b) in *.
  assert (L1 : b < nb w1) by (pose proof (e_nb _ _ X); lia).
  assert (F : bat w1 b = bat w b /\ (forall c, c < nb w -> bat w1 c = bat w c) /\ ni w1 = ni w /\ itm w1 = itm w).
  { unfold w1, switch. destruct (Nat.eqb (active w) b); cbn; repeat split; auto; intros; upd; auto; lia. }
  destruct F as (F1 & F2 & F3 & F4).
  split; [|repeat split; cbn; auto].
  - apply inv_counters; auto.
    + intros c Hc. cbn. destruct (Nat.eqb_spec b c); congruence.
    + rewrite body_evs_app. cbn. rewrite Nat.eqb_refl. rewrite app_length. cbn.
      destruct (i_body _ _ I1 b L1) as (B1 & B2). split. lia.
      apply Forall_app. split; auto.
    + intros. apply snoc_split in H as [(Q1 & Q2 & Q3)|(l2' & Q1 & Q2)]; try discriminate. eauto.
    + cbn. auto.
  - upd; cbn; congruence.
  - upd; cbn; congruence.
  - intros c Hc Hn. upd; try congruence. now rewrite F2.
  - intros c o Hc Ho. upd; cbn. rewrite F1; auto. rewrite F2; auto.
  - apply (e_nb _ _ X).
  - destruct (e_log _ _ X) as (l & E). exists (l ++ [EBody b (active w1)]). rewrite E. now rewrite app_assoc.
  - intros c Hc Hc'. upd; try lia. apply (e_newruns _ _ X); auto.
Qed.

Lemma inv_compute sc w b :
  inv None w -> b < nb w -> bout (bat w b) = None ->
  let w' := compute sc w b in
  inv None w' /\ bout (bat w' b) <> None /\
  bruns (bat w' b) = S (bruns (bat w b)) /\
  (forall c, c < nb w -> c <> b -> bruns (bat w' c) = bruns (bat w c)) /\
  (forall c o, c < nb w -> bout (bat w c) = Some o -> bout (bat w' c) = Some o) /\
  (forall i o, i < ni w -> iout (itm w i) = Some o -> iout (itm w' i) = Some o) /\
  nb w <= nb w' /\ ni w <= ni w' /\ (exists l, log w' = log w ++ l) /\
  (forall c, nb w <= c -> c < nb w' -> bruns (bat w' c) = 0) /\
  (forall i, i < ni w -> ibatch (itm w' i) = ibatch (itm w i)).
Proof.
  intros I L P. cbn zeta. unfold compute.
  destruct (inv_enter w b I L) as (I1 & A1 & L1 & B1 & R1 & R2 & R3 & N1 & N2 & N3 & (l1 & G1) & N4).
  pose proof (inv_exec b (script_of sc b) (enter w b) I1 L1) as I2.
  pose proof (ext_exec b (script_of sc b) (enter w b)) as X2.
  destruct (exec (enter w b) b (script_of sc b)) as [w3 r]; cbn [fst snd] in *.
  assert (L3 : b < nb w3) by (pose proof (e_nb _ _ X2); lia).
  assert (X : ext (enter w b) (match bout (bat w3 b) with Some _ => w3 | None =>
              batch_computed w3 b (match r with None => Ok VNone | Some e => Err e end) end)).
  { destruct (bout (bat w3 b)) eqn:Q; auto. eapply ext_trans; eauto. apply ext_batch_computed; auto. }
  assert (IF : inv None (match bout (bat w3 b) with Some _ => w3 | None =>
              batch_computed w3 b (match r with None => Ok VNone | Some e => Err e end) end) /\
          bout (bat (match bout (bat w3 b) with Some _ => w3 | None =>
              batch_computed w3 b (match r with None => Ok VNone | Some e => Err e end) end) b) <> None).
  { destruct (bout (bat w3 b)) eqn:Q. split; auto; congruence.
    destruct (inv_batch_computed w3 b (match r with None => Ok VNone | Some e => Err e end) I2 L3 Q) as (J1 & J2).
    split; auto; congruence. }
  destruct IF as (IF1 & IF2).
  set (wf := match bout (bat w3 b) with Some _ => w3 | None => _ end) in *.
  split; auto. split; auto. split; [|split; [|split; [|split; [|split; [|split; [|split; [|split]]]]]]].
  - rewrite (e_runs _ _ X) by auto. auto.
  - intros c Hc Hn. rewrite (e_runs _ _ X) by lia. auto.
  - intros c o Hc Ho. apply (e_bout _ _ X). lia. auto.
  - intros i o Hi Ho. apply (e_iout _ _ X). lia. rewrite N3. auto.
  - pose proof (e_nb _ _ X). lia.
  - pose proof (e_ni _ _ X). lia.
  - destruct (e_log _ _ X) as (l2 & G2). exists (l1 ++ l2). rewrite G2, G1. now rewrite app_assoc.
  - intros c Hc Hc'. destruct (Nat.lt_ge_cases c (nb (enter w b))).
    + rewrite (e_runs _ _ X) by auto. apply N4; auto.
    + apply (e_newruns _ _ X); auto.
  - intros i Hi. rewrite (e_ibatch _ _ X) by lia. now rewrite N3.
Qed.

(* ------------------------------------------------------------------ operation level *)
Definition runs_ok (w : world) : Prop :=
  forall b, b < nb w -> bruns (bat w b) <= 1 /\ (bout (bat w b) = None -> bruns (bat w b) = 0).

Definition good (w : world) : Prop := inv None w /\ runs_ok w.

Record mono (w w' : world) : Prop := mkMono {
  m_nb : nb w <= nb w';
  m_ni : ni w <= ni w';
  m_bout : forall b o, b < nb w -> bout (bat w b) = Some o -> bout (bat w' b) = Some o;
  m_iout : forall i o, i < ni w -> iout (itm w i) = Some o -> iout (itm w' i) = Some o;
  m_ibatch : forall i, i < ni w -> ibatch (itm w' i) = ibatch (itm w i);
  m_runs : forall b, b < nb w -> bruns (bat w b) <= bruns (bat w' b);
  m_log : exists l, log w' = log w ++ l
}.

Lemma mono_refl w : mono w w.
Proof. constructor; auto. exists []. now rewrite app_nil_r. Qed.

Lemma mono_trans w1 w2 w3 : mono w1 w2 -> mono w2 w3 -> mono w1 w3.
Proof.
  intros A B. constructor; intros.
  - pose proof (m_nb _ _ A); pose proof (m_nb _ _ B); lia.
  - pose proof (m_ni _ _ A); pose proof (m_ni _ _ B); lia.
  - apply (m_bout _ _ B). pose proof (m_nb _ _ A); lia. apply (m_bout _ _ A); auto.
  - apply (m_iout _ _ B). pose proof (m_ni _ _ A); lia. apply (m_iout _ _ A); auto.
  - rewrite (m_ibatch _ _ B). apply (m_ibatch _ _ A); auto. pose proof (m_ni _ _ A); lia.
  - pose proof (m_runs _ _ A b H). pose proof (m_nb _ _ A). pose proof (m_runs _ _ B b). lia.
  - destruct (m_log _ _ A) as (l1 & E1). destruct (m_log _ _ B) as (l2 & E2).
    exists (l1 ++ l2). rewrite E2, E1. now rewrite app_assoc.
Qed.

Lemma mono_ext w w' : ext w w' -> mono w w'.
Proof.
  intros X. constructor; try apply X. intros b H. rewrite (e_runs _ _ X); auto.
Qed.

Lemma runs_ok_ext w w' : runs_ok w -> ext w w' -> runs_ok w'.
Proof.
  intros R X b Hb. destruct (Nat.lt_ge_cases b (nb w)) as [L|L].
  - rewrite (e_runs _ _ X) by auto. destruct (R b L) as (R1 & R2). split; auto.
    intros P. apply R2. destruct (bout (bat w b)) eqn:Q; auto. rewrite (e_bout _ _ X b o L Q) in P. discriminate.
  - rewrite (e_newruns _ _ X) by auto. split; auto.
Qed.

Lemma good_ext w w' : good w -> inv None w' -> ext w w' -> good w' /\ mono w w'.
Proof. intros (I & R) I' X. split; [split; auto; eapply runs_ok_ext; eauto|apply mono_ext; auto]. Qed.

Lemma good_compute sc w b :
  good w -> b < nb w -> bout (bat w b) = None -> good (compute sc w b) /\ mono w (compute sc w b).
Proof.
  intros (I & R) L P.
  destruct (inv_compute sc w b I L P) as (I' & D & R1 & R2 & M1 & M2 & N1 & N2 & G & R3 & M3).
  split; [split; auto|constructor; auto].
  - intros c Hc. destruct (Nat.lt_ge_cases c (nb w)) as [Lc|Lc].
    + destruct (Nat.eq_dec c b) as [->|Nc].
      * rewrite R1. destruct (R b L) as (_ & Z). rewrite (Z P). split; auto. intros; congruence.
      * rewrite (R2 c Lc Nc). destruct (R c Lc) as (Z1 & Z2). split; auto.
        intros Q. apply Z2. destruct (bout (bat w c)) eqn:Q'; auto. rewrite (M1 c o Lc Q') in Q. discriminate.
    + rewrite (R3 c Lc Hc). split; auto.
  - intros c Hc. destruct (Nat.eq_dec c b) as [->|Nc]. rewrite R1; lia. rewrite (R2 c Hc Nc); lia.
Qed.

Lemma inv_clear_items w b :
  inv None w -> b < nb w -> bout (bat w b) <> None -> inv None (clear_items w b).
Proof.
  intros I L D. unfold clear_items. constructor; cbn; intros.
  - apply (i_act_lt _ _ I).
  - upd; cbn; apply (i_act_pend _ _ I); auto.
  - apply (i_ib _ _ I); auto.
  - upd; cbn in *; try tauto. apply (i_listed _ _ I); auto.
  - upd; cbn; auto.
    + exfalso. apply (i_done _ _ I i H); auto. discriminate.
    + apply (i_pend _ _ I); auto.
  - upd; cbn in *; apply (i_done _ _ I); auto.
  - apply (i_ilog _ _ I); auto.
  - apply (i_ilog2 _ _ I); auto.
  - unfold obs_batch; cbn. upd; cbn; apply (i_blog _ _ I); auto.
  - discriminate.
  - apply (i_blog2 _ _ I); auto.
  - upd; cbn; apply (i_body _ _ I); auto.
  - apply (i_body2 _ _ I); auto.
  - eapply (i_order _ _ I); eauto.
  - apply (i_reads _ _ I).
Qed.

Lemma ext_clear_items w b : ext w (clear_items w b).
Proof. unfold clear_items. ext_base. Qed.

Lemma good_flush sc w b :
  good w -> b < nb w -> good (fst (flush sc w b)) /\ mono w (fst (flush sc w b)).
Proof.
  intros G L. unfold flush. destruct (bout (bat w b)) eqn:P; cbn.
  - split; auto. apply mono_refl.
  - destruct (good_compute sc w b G L P) as (G1 & M1).
    destruct (inv_compute sc w b (proj1 G) L P) as (_ & D & _ & _ & _ & _ & N1 & _).
    assert (inv None (clear_items (compute sc w b) b)) by (apply inv_clear_items; [apply G1|lia|auto]).
    destruct (good_ext _ _ G1 H (ext_clear_items _ b)) as (G2 & M2).
    split; auto. eapply mono_trans; eauto.
Qed.

Lemma good_item_compute sc w i :
  good w -> i < ni w -> good (fst (item_compute sc w i)) /\ mono w (fst (item_compute sc w i)).
Proof.
  intros G L. unfold item_compute. destruct (bout (bat w (ibatch (itm w i)))) eqn:P; cbn.
  - split; auto. apply mono_refl.
  - apply good_flush; auto. apply (i_ib _ _ (proj1 G)); auto.
Qed.

Lemma good_of_raise (x : world * option exn) ok w :
  good (fst x) /\ mono w (fst x) -> good (fst (of_raise x ok)) /\ mono w (fst (of_raise x ok)).
Proof. unfold of_raise. destruct x as [w' [e|]]; cbn; auto. Qed.

Lemma good_step sc w o : good w -> good (fst (step sc w o)) /\ mono w (fst (step sc w o)).
Proof.
  intros G. pose proof G as (I & R).
  assert (Z : good w /\ mono w w) by (split; auto; apply mono_refl).
  destruct o; cbn [step];
    try (destruct (Nat.ltb_spec b (nb w)); cbn [fst]; auto);
    try (destruct (Nat.ltb_spec i (ni w)); cbn [fst]; auto);
    try apply good_of_raise; auto.
  - apply good_ext; auto. apply inv_new_item; auto. apply I. apply ext_new_item.
  - apply good_ext; auto. apply inv_new_item; auto. apply ext_new_item.
  - apply good_flush; auto.
  - apply good_ext; auto. apply inv_cancel; auto. apply ext_cancel.
  - unfold item_read. destruct (iout (itm w i)); cbn [fst]; auto. apply good_of_raise. apply good_item_compute; auto.
  - unfold item_read. destruct (iout (itm w i)); cbn [fst]; auto. apply good_of_raise. apply good_item_compute; auto.
  - apply good_ext; auto. apply inv_item_set; auto. apply ext_item_set.
  - apply good_ext; auto. apply inv_item_set; auto. apply ext_item_set.
  - unfold batch_read. destruct (bout (bat w b)) eqn:P; cbn [fst]; auto. apply good_compute; auto.
  - unfold batch_read. destruct (bout (bat w b)) eqn:P; cbn [fst]; auto. apply good_compute; auto.
  - unfold batch_set. destruct (bout (bat w b)) eqn:P; cbn [fst]; auto.
    apply good_ext; auto. apply inv_batch_computed; auto. apply ext_batch_computed; auto.
  - unfold batch_set. destruct (bout (bat w b)) eqn:P; cbn [fst]; auto.
    apply good_ext; auto. apply inv_batch_computed; auto. apply ext_batch_computed; auto.
Qed.

Lemma good_init : good init.
Proof. split. apply inv_init. intros b Hb. cbn in *. split; auto. Qed.

Lemma good_run sc ops : forall w, good w -> good (fst (run sc w ops)) /\ mono w (fst (run sc w ops)).
Proof.
  induction ops as [|o ops IH]; intros w G; cbn.
  - split; auto. apply mono_refl.
  - destruct (good_step sc w o G) as (G1 & M1).
    destruct (step sc w o) as [w1 r]. cbn [fst] in *.
    destruct (IH w1 G1) as (G2 & M2).
    destruct (run sc w1 ops) as [w2 rs]. cbn [fst] in *.
    split; auto. eapply mono_trans; eauto.
Qed.

(* ================================================================== the C11 theorems *)

(* every world reached from the initial one by any op history, for any flush scripts, is good *)
Lemma reachable_good sc ops : good (fst (run sc init ops)).
Proof. apply good_run. apply good_init. Qed.

Lemma item_evs_In i l : item_evs i l <> [] -> exists o, In (EItem i o) l.
Proof.
  induction l as [|e l IH]; cbn; try congruence.
  destruct e; try (intros H; destruct (IH H) as (o' & Ho); exists o'; auto; fail).
  destruct (Nat.eqb_spec i0 i); subst.
  - intros _. exists o. auto.
  - intros H; destruct (IH H) as (o' & Ho); exists o'; auto.
Qed.

(* lifecycle, exactly once: in every reachable world a batch (an item) has announced its completion
   exactly once if it is finished - with the outcome it holds - and never if it is pending; its flush
   body has been entered at most once, and not at all while it is pending *)
Lemma lifecycle_once w : good w ->
  (forall b, b < nb w ->
     batch_evs b (log w) = obs_batch w b /\
     length (body_evs b (log w)) = bruns (bat w b) /\ bruns (bat w b) <= 1 /\
     (bout (bat w b) = None -> bruns (bat w b) = 0)) /\
  (forall i, i < ni w -> item_evs i (log w) = obs_item w i).
Proof.
  intros (I & R). split.
  - intros b L. destruct (R b L) as (R1 & R2). destruct (i_body _ _ I b L) as (B1 & _).
    repeat split; auto. apply (i_blog _ _ I); auto. discriminate.
  - intros i L. apply (i_ilog _ _ I); auto.
Qed.

(* ... and over any further history nothing that is finished ever changes (single assignment) *)
Lemma outcomes_stable sc ops w : good w -> mono w (fst (run sc w ops)).
Proof. intros G. apply good_run; auto. Qed.

(* flush() on a pending batch: returns normally whatever the body does, runs the body exactly once,
   leaves the batch finished and its items list cleared *)
Lemma flush_pending sc w b : good w -> b < nb w -> bout (bat w b) = None ->
  exists w', step sc w (OFlush b) = (w', RUnit) /\ bout (bat w' b) <> None /\
             bruns (bat w' b) = 1 /\ bitems (bat w' b) = [] /\ good w'.
Proof.
  intros G L P. pose proof (good_flush sc w b G L) as (G' & _).
  destruct (inv_compute sc w b (proj1 G) L P) as (_ & D & R1 & _).
  destruct (proj2 G b L) as (_ & Z). rewrite (Z P) in R1.
  cbn [step]. destruct (Nat.ltb_spec b (nb w)); try lia.
  unfold flush in *. rewrite P in *. cbn in *.
  eexists; split; [reflexivity|].
  split; [|split; [|split; [|exact G']]]; unfold clear_items; cbn; upd; cbn; try congruence; auto.
Qed.

Lemma second_flush sc w b o : b < nb w -> bout (bat w b) = Some o ->
  step sc w (OFlush b) = (w, RRaise E_BATCHING).
Proof.
  intros L P. cbn [step]. destruct (Nat.ltb_spec b (nb w)); try lia. unfold flush. rewrite P. reflexivity.
Qed.

(* cancel() never raises; it is a no-op on a finished batch; on a pending batch it finishes the batch
   with the given error (BatchCancelledError by default) without running the body *)
Lemma cancel_spec sc w b oe : b < nb w ->
  snd (step sc w (OCancel b oe)) = RUnit /\
  (forall o, bout (bat w b) = Some o -> fst (step sc w (OCancel b oe)) = w) /\
  (good w -> bout (bat w b) = None ->
   let w' := fst (step sc w (OCancel b oe)) in
   bout (bat w' b) = Some (Err (match oe with Some e => e | None => E_CANCELLED end)) /\
   bruns (bat w' b) = 0 /\ good w').
Proof.
  intros L. cbn [step]. destruct (Nat.ltb_spec b (nb w)); try lia. cbn [fst snd].
  split; auto. split.
  - intros o P. unfold cancel. now rewrite P.
  - intros G P. cbn zeta. unfold cancel. rewrite P.
    destruct (inv_batch_computed w b (Err (match oe with Some e => e | None => E_CANCELLED end)) (proj1 G) L P) as (I' & B').
    pose proof (ext_batch_computed w b (Err (match oe with Some e => e | None => E_CANCELLED end)) P) as X.
    split; auto. split.
    + rewrite (e_runs _ _ X) by auto. apply (proj2 G b L); auto.
    + apply (good_ext _ _ G I' X).
Qed.

Lemma no_add_to_finished sc w b v o : b < nb w -> bout (bat w b) = Some o ->
  step sc w (OAddTo b v) = (w, RRaise E_ADDFLUSHED).
Proof.
  intros L P. cbn [step]. destruct (Nat.ltb_spec b (nb w)); try lia. unfold new_item. rewrite P. reflexivity.
Qed.

(* a request created through the registry never fails and joins the active batch, which is pending *)
Lemma add_joins_active sc w v : good w ->
  let w' := fst (step sc w (OAdd v)) in
  snd (step sc w (OAdd v)) = RItem (ni w) (active w) /\
  bout (bat w (active w)) = None /\ active w < nb w /\
  ibatch (itm w' (ni w)) = active w /\ In (ni w) (bitems (bat w' (active w))) /\ ni w' = S (ni w).
Proof.
  intros G. pose proof (i_act_pend _ _ (proj1 G)) as P. specialize (P ltac:(discriminate)).
  cbn [step]. unfold new_item. rewrite P. cbn. upd; try congruence. cbn.
  repeat split; auto. apply (i_act_lt _ _ (proj1 G)). apply in_or_app; right; cbn; auto.
Qed.

(* no item left pending: in every reachable world the items of a finished batch are all complete *)
Lemma no_item_left_pending w i : good w -> i < ni w ->
  bout (bat w (ibatch (itm w i))) <> None -> iout (itm w i) <> None.
Proof. intros (I & _) L D. apply (i_done _ _ I); auto. discriminate. Qed.

(* event-log order: every item of a batch announced its completion before the batch did *)
Lemma items_before_announce w l1 l2 b o i : good w ->
  log w = l1 ++ EBatch b o :: l2 -> i < ni w -> ibatch (itm w i) = b ->
  exists oi, In (EItem i oi) l1.
Proof. intros (I & _) E L B. apply item_evs_In. eapply (i_order _ _ I); eauto. Qed.

(* completion priority inside _computed: an item keeps what was set; a leftover item of the batch gets
   the flush / cancellation error, or the "not set" AssertionError when the batch succeeded; nothing
   else is touched *)
Lemma batch_computed_items w b o : b < nb w ->
  let w' := batch_computed w b o in
  (forall i x, iout (itm w i) = Some x -> iout (itm w' i) = Some x) /\
  (forall i, iout (itm w i) = None -> In i (bitems (bat w b)) -> iout (itm w' i) = Some (leftover o)) /\
  (forall i, iout (itm w i) = None -> ~ In i (bitems (bat w b)) -> iout (itm w' i) = None).
Proof.
  intros L. cbn zeta. unfold batch_computed.
  set (w1 := set_bat w b _).
  set (w2 := switch w1 b).
  set (w3 := match o with Ok _ => w2 | Err _ => call_cancel_hook w2 b end).
  assert (F : itm w3 = itm w /\ bitems (bat w3 b) = bitems (bat w b)).
  { unfold w3, w2, switch, w1. destruct o; destruct (Nat.eqb (active (set_bat w b _)) b); cbn; split; auto; upd; cbn; auto; lia. }
  destruct F as (F1 & F2).
  pose proof (finish_items_frame w3 (bitems (bat w3 b)) (leftover o)) as F. cbn zeta in F.
  destruct F as (_ & _ & _ & _ & _ & _ & G6 & G7 & G8).
  cbn [itm emit]. rewrite F2, F1 in *. repeat split; auto.
Qed.

(* ... and for _compute as a whole: value set by the body > flush error > AssertionError *)
Lemma compute_priority sc w b w3 r :
  exec (enter w b) b (script_of sc b) = (w3, r) -> bout (bat w3 b) = None -> b < nb w3 ->
  let w' := compute sc w b in
  bout (bat w' b) = Some (match r with None => Ok VNone | Some e => Err e end) /\
  forall i, In i (bitems (bat w3 b)) ->
    iout (itm w' i) = match iout (itm w3 i) with
                      | Some x => Some x
                      | None => Some (Err (match r with None => E_NOTSET | Some e => e end))
                      end.
Proof.
  intros E P L. cbn zeta. unfold compute. rewrite E, P.
  destruct (batch_computed_items w3 b (match r with None => Ok VNone | Some e => Err e end) L) as (A1 & A2 & _).
  split.
  - unfold batch_computed. cbn [bat emit].
    pose proof (finish_items_frame) as F.
    match goal with |- bout (bat (finish_items ?a ?l ?o) b) = _ => destruct (F a l o) as (G1 & _); rewrite G1 end.
    unfold switch. destruct r; destruct (Nat.eqb _ b); cbn; upd; cbn; auto; lia.
  - intros i Hi. destruct (iout (itm w3 i)) eqn:Q.
    + apply A1; auto.
    + rewrite (A2 i Q Hi). destruct r; reflexivity.
Qed.

(* asking a pending item for its value flushes its pending batch (body entered exactly once) and
   reports the item's outcome - never the "not computed" marker *)
Lemma item_value_flushes sc w i : good w -> i < ni w -> iout (itm w i) = None ->
  let b := ibatch (itm w i) in
  let w' := fst (step sc w (OItemValue i)) in
  bout (bat w b) = None /\ bout (bat w' b) <> None /\ bruns (bat w' b) = 1 /\
  exists o, iout (itm w' i) = Some o /\ snd (step sc w (OItemValue i)) = report_value (Some o).
Proof.
  intros G L P. cbn zeta.
  assert (PB : bout (bat w (ibatch (itm w i))) = None).
  { destruct (bout (bat w (ibatch (itm w i)))) eqn:Q; auto.
    exfalso. apply (no_item_left_pending w i G L); auto. congruence. }
  pose proof (i_ib _ _ (proj1 G) i L) as LB.
  destruct (flush_pending sc w _ G LB PB) as (w' & E & D & R1 & _ & G').
  cbn [step] in *. destruct (Nat.ltb_spec (ibatch (itm w i)) (nb w)); try lia.
  destruct (Nat.ltb_spec i (ni w)); try lia.
  unfold item_read, item_compute. rewrite P, PB.
  unfold of_raise in *. destruct (flush sc w (ibatch (itm w i))) as [w'' [e|]] eqn:F; cbn [fst snd] in *; try discriminate.
  inversion E; subst w''.
  assert (M : mono w w').
  { pose proof (good_flush sc w (ibatch (itm w i)) G LB) as (_ & M). now rewrite F in M. }
  assert (D' : iout (itm w' i) <> None).
  { apply no_item_left_pending; auto. pose proof (m_ni _ _ M); lia. rewrite (m_ibatch _ _ M) by auto. auto. }
  repeat split; auto.
  destruct (iout (itm w' i)) as [o|] eqn:Q; try congruence. exists o. auto.
Qed.

(* single assignment for batches and items (C10's clause for these futures) *)
Lemma single_assignment sc w :
  (forall i o v, i < ni w -> iout (itm w i) = Some o -> step sc w (OItemSet i v) = (w, RRaise E_ALREADY)) /\
  (forall i o e, i < ni w -> iout (itm w i) = Some o -> step sc w (OItemSetErr i e) = (w, RRaise E_ALREADY)) /\
  (forall b o v, b < nb w -> bout (bat w b) = Some o -> step sc w (OBatchSet b v) = (w, RRaise E_ALREADY)) /\
  (forall b o e, b < nb w -> bout (bat w b) = Some o -> step sc w (OBatchSetErr b e) = (w, RRaise E_ALREADY)).
Proof.
  repeat split; intros; cbn [step];
    try (destruct (Nat.ltb_spec i (ni w)); try lia); try (destruct (Nat.ltb_spec b (nb w)); try lia);
    unfold item_set, batch_set; rewrite H0; reflexivity.
Qed.

(* the registry: always points at a pending batch; it is switched before the body runs and stays
   away from the flushing batch for the whole body, so a request created while flushing (ANew = new_item on
   the registry's batch) joins that fresh batch *)
Lemma switch_noop w b : active w <> b -> switch w b = w.
Proof. intros H. unfold switch. destruct (Nat.eqb_spec (active w) b); congruence. Qed.

Lemma batch_computed_active w b o : active w <> b -> active (batch_computed w b o) = active w.
Proof.
  intros H. unfold batch_computed. cbn [active emit].
  match goal with |- active (finish_items ?a ?l ?o) = _ => destruct (finish_items_frame a l o) as (_ & _ & _ & G4 & _); rewrite G4 end.
  rewrite switch_noop by (cbn; auto). destruct o; reflexivity.
Qed.

Lemma set_all_active l : forall w, active (fst (set_all w l)) = active w.
Proof.
  induction l as [|i l IH]; intros w; cbn; auto.
  unfold item_set. destruct (iout (itm w i)); cbn; auto. rewrite IH. reflexivity.
Qed.

Lemma exec1_active w b a : active w <> b -> active (fst (exec1 w b a)) = active w.
Proof.
  intros H. destruct a; cbn; auto.
  - apply set_all_active.
  - destruct (nth_error _ k); cbn; auto. unfold item_set. destruct (iout (itm w n)); cbn; auto.
  - destruct (nth_error _ k); cbn; auto. unfold item_set. destruct (iout (itm w n)); cbn; auto.
  - unfold new_item. destruct (bout (bat w (active w))); cbn; auto.
  - unfold cancel. destruct (bout (bat w b)); auto. apply batch_computed_active; auto.
  - destruct (nth_error _ k); cbn; auto.
  - destruct (nth_error _ k); cbn; auto. unfold item_set. destruct (iout (itm w n)); cbn; auto.
    destruct (nth_error _ j); cbn; auto.
Qed.

Lemma exec_active b acts : forall w, active w <> b -> active (fst (exec w b acts)) = active w.
Proof.
  induction acts as [|a acts IH]; intros w H; cbn; auto.
  pose proof (exec1_active w b a H) as A.
  destruct (exec1 w b a) as [w1 [e|]]; cbn in *; auto.
  rewrite IH; congruence.
Qed.

Lemma fresh_batch w b : good w -> b < nb w ->
  let w1 := enter w b in
  active w1 <> b /\ bout (bat w1 (active w1)) = None /\
  (exists l, log w1 = l ++ [EBody b (active w1)]) /\
  (forall acts, active (fst (exec w1 b acts)) = active w1) /\
  (forall w' v, active w' <> b -> good w' ->
     let w'' := fst (exec1 w' b (ANew v)) in
     ni w'' = S (ni w') /\ ibatch (itm w'' (ni w')) = active w' /\ ibatch (itm w'' (ni w')) <> b).
Proof.
  intros G L. cbn zeta.
  destruct (inv_enter w b (proj1 G) L) as (I1 & A1 & _).
  split; auto. split. apply (i_act_pend _ _ I1). discriminate.
  split. unfold enter. cbn. eexists; reflexivity.
  split. intros acts. apply exec_active; auto.
  intros w' v H G'. cbn. pose proof (i_act_pend _ _ (proj1 G')) as P. specialize (P ltac:(discriminate)).
  unfold new_item. rewrite P. cbn. upd; try congruence. cbn. auto.
Qed.

Lemma registry_ok w : good w ->
  active w < nb w /\ bout (bat w (active w)) = None /\
  forall b, b < nb w -> Forall (fun a => a <> b) (body_evs b (log w)).
Proof.
  intros (I & _). split. apply I. split. apply (i_act_pend _ _ I); discriminate.
  intros b L. apply (i_body _ _ I b L).
Qed.

(* ------------------------------------------------------------------ re-entrant requests while the body runs *)
(* every world the body of b passes through (any prefix of any script), started from a good world, satisfies
   the invariant: the hypothesis of the three lemmas below is met at every point of every flush *)
Lemma body_worlds_inv w b acts : good w -> b < nb w ->
  inv None (fst (exec (enter w b) b acts)) /\ b < nb (fst (exec (enter w b) b acts)).
Proof.
  intros G L. destruct (inv_enter w b (proj1 G) L) as (I1 & _ & L1 & _).
  split. apply inv_exec; auto. pose proof (e_nb _ _ (ext_exec b acts (enter w b))). lia.
Qed.

(* the body asks item k of its own batch for value()/error(): nothing but the log changes - the body is not
   entered again, nothing is completed - and the answer is the item's outcome if it is complete, BatchingError
   if it is still pending (the batch is then pending too: its flush is in progress) *)
Lemma reentrant_read w b k kd c i :
  inv None w -> b < nb w -> nth_error (bitems (bat w b)) k = Some i ->
  let r := sibling_read w b i kd in
  let w' := fst (exec1 w b (ARead k kd c)) in
  exec1 w b (ARead k kd c) = (emit w (ERead b i r), if c then None else raised r) /\
  bat w' = bat w /\ itm w' = itm w /\ nb w' = nb w /\ ni w' = ni w /\ active w' = active w /\
  r <> RNotComputed /\ r <> RSkip /\
  (iout (itm w i) = None -> bout (bat w b) = None /\ r = RRaise E_BATCHING) /\
  (forall o, iout (itm w i) = Some o -> r = rep_of kd (Some o)).
Proof.
  intros I L E. cbn zeta. cbn [exec1]. rewrite E. cbn [fst].
  destruct (sibling_read_spec w b i kd I L (nth_error_In _ _ E)) as (A1 & A2 & A3 & A4).
  repeat split; auto; apply A3; auto.
Qed.

(* flush() called by the body of the batch being flushed is refused; nothing but the log changes *)
Lemma reflush_refused w b c :
  exec1 w b (AReflush c) = (emit w (EReflush b (RRaise E_BATCHING)), if c then None else Some E_BATCHING).
Proof. reflexivity. Qed.

(* value()/error() of the batch itself asked by its running body (repaired code): refused with BatchingError
   while the batch is pending, the stored outcome once the body has cancelled it; nothing but the log changes *)
Lemma batch_reread_refused w b kd c :
  let r := batch_reread w b kd in
  exec1 w b (AReadBatch kd c) = (emit w (EBRead b r), if c then None else raised r) /\
  (bout (bat w b) = None -> r = RRaise E_BATCHING) /\
  (forall o, bout (bat w b) = Some o -> r = rep_of kd (Some o)).
Proof.
  cbn zeta. split. reflexivity. unfold batch_reread. split.
  - intros ->. reflexivity.
  - intros o ->. reflexivity.
Qed.

(* an on_computed subscriber of item k asks sibling j for its value as soon as k is set by the body: k gets its
   value, the sibling's request is answered as above on the world in which k is complete (BatchingError for a
   pending sibling, which stays pending; the body is not entered again) *)
Lemma set_read_spec w b k v j kd i i2 :
  inv None w -> b < nb w -> nth_error (bitems (bat w b)) k = Some i -> iout (itm w i) = None ->
  nth_error (bitems (bat w b)) j = Some i2 ->
  let w1 := complete_item w i (Ok v) in
  let r := sibling_read w1 b i2 kd in
  exec1 w b (ASetRead k v j kd) = (emit w1 (ERead b i2 r), None) /\
  (i2 = i -> r = rep_of kd (Some (Ok v))) /\
  (i2 <> i -> iout (itm w i2) = None ->
     r = RRaise E_BATCHING /\ iout (itm (emit w1 (ERead b i2 r)) i2) = None) /\
  bat (emit w1 (ERead b i2 r)) = bat w.
Proof.
  intros I L E P E2. cbn zeta. cbn [exec1]. rewrite E. unfold item_set. rewrite P.
  assert (B : bat (complete_item w i (Ok v)) = bat w) by reflexivity.
  rewrite B, E2.
  assert (Li : i < ni w) by (apply (i_listed _ _ I b i L); eapply nth_error_In; eauto).
  pose proof (inv_complete_item None w i (Ok v) I Li P) as I1.
  assert (H2 : In i2 (bitems (bat (complete_item w i (Ok v)) b))) by (rewrite B; eapply nth_error_In; eauto).
  destruct (sibling_read_spec (complete_item w i (Ok v)) b i2 kd I1 L H2) as (A1 & A2 & A3 & A4).
  repeat split; auto.
  - intros ->. apply A4. cbn. upd; cbn; congruence.
  - apply A3. cbn. upd; cbn; congruence.
  - cbn. upd; cbn; congruence.
Qed.

(* in every reachable world every logged re-entrant request was answered with the item's outcome or refused
   with BatchingError (never the "not computed" marker, never a nested flush), and every flush() called by a
   running body was refused - together with lifecycle_once (body entries = bruns <= 1) for the same scripts *)
Lemma reads_refused w : good w -> Forall read_ok (log w).
Proof. intros (I & _). apply (i_reads _ _ I). Qed.

Lemma reads_refused_run sc ops :
  Forall read_ok (log (fst (run sc init ops))) /\
  forall b, b < nb (fst (run sc init ops)) -> bruns (bat (fst (run sc init ops)) b) <= 1.
Proof.
  pose proof (reachable_good sc ops) as G. split. apply reads_refused; auto.
  intros b L. apply (proj2 G b L).
Qed.

(* non-vacuity of the re-entrant part: a subscriber of item 0 and the body itself ask pending item 1, the
   body calls flush(); the body is entered once and item 1 gets the value the body sets afterwards *)
Example nonvacuous_reentrant :
  let sc := [[ASetRead 0 (VInt 5) 1 KValue; ARead 1 KError true; AReflush true; ASet 1 (VInt 7)]] in
  let w := fst (run sc init [OAdd (VInt 1); OAdd (VInt 2); OItemValue 0]) in
  log w = [ENew 0 0; ENew 1 0; EBody 0 1; EItem 0 (Ok (VInt 5)); ERead 0 1 (RRaise E_BATCHING);
           ERead 0 1 (RRaise E_BATCHING); EReflush 0 (RRaise E_BATCHING); EItem 1 (Ok (VInt 7));
           EBatch 0 (Ok VNone)] /\
  bruns (bat w 0) = 1 /\ iout (itm w 1) = Some (Ok (VInt 7)).
Proof. cbn zeta. repeat split; reflexivity. Qed.

(* non-vacuity: a concrete history in which a body sets one item, creates a request and raises *)
Example nonvacuous :
  let sc := [[ASet 0 (VInt 5); ANew VNone; ARaise 7%Z]] in
  let w := fst (run sc init [OAdd (VInt 1); OAdd (VInt 2)]) in
  good w /\ bout (bat w 0) = None /\ iout (itm w 1) = None /\
  snd (run sc w [OItemValue 1; OFlush 0; OItemValue 0; OAddTo 0 VNone; OCancel 0 None]) =
    [RRaise 7%Z; RRaise E_BATCHING; RVal (VInt 5); RRaise E_ADDFLUSHED; RUnit] /\
  log (fst (run sc w [OItemValue 1])) =
    [ENew 0 0; ENew 1 0; EBody 0 1; EItem 0 (Ok (VInt 5)); ENew 2 1; ECancel 0; EItem 1 (Err 7%Z); EBatch 0 (Err 7%Z)].
Proof. cbn zeta. split. apply reachable_good. repeat split; reflexivity. Qed.
