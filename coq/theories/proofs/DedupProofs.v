(* Proofs about the Dedup model (C12). *)
From Asynq Require Import Base Dedup.

(* ================================================================ normalisation *)

Lemma fill_fill_ref names kw dfl : fill names kw dfl = fill_ref names kw dfl.
Proof.
  induction names as [|n ns IH]; cbn; [reflexivity|]. rewrite IH.
  destruct (lookup n dfl), (lookup n kw); reflexivity.
Qed.

Definition binding := (list aval * list aval * list (name * aval))%type.

(* how the repaired keygetter encodes a binding *)
Definition enc (s : sig) (b : binding) : list kelt :=
  let '(vals, rest, ex) := b in
  if varargs s then KRest rest :: map KPos vals ++ map kw_elt ex
  else map KPos vals ++ map kw_elt ex.

Lemma map_kw_elt_inj a b : map kw_elt a = map kw_elt b -> a = b.
Proof.
  revert b; induction a as [|[n1 v1] a IH]; destruct b as [|[n2 v2] b]; cbn; intros H; try discriminate; [reflexivity|].
  inversion H. subst. f_equal. apply IH. assumption.
Qed.

Lemma enc_body_inj a b a' b' :
  map KPos a ++ map kw_elt b = map KPos a' ++ map kw_elt b' -> a = a' /\ b = b'.
Proof.
  revert a'; induction a as [|x a IH]; destruct a' as [|x' a']; cbn; intros H.
  - split; [reflexivity|]. apply map_kw_elt_inj, H.
  - destruct b as [|[? ?] b]; cbn in H; discriminate.
  - destruct b' as [|[? ?] b']; cbn in H; discriminate.
  - inversion H as [[H1 H2]]. destruct (IH _ H2). subst. split; reflexivity.
Qed.

Lemma skipn_names (pn ko : list name) n :
  (n <= length pn)%nat -> skipn n (pn ++ ko) = skipn n pn ++ ko.
Proof.
  intros H. rewrite skipn_app. replace (n - length pn)%nat with O by lia. reflexivity.
Qed.

(* a well-formed call of a function without *rest: get_args_tuple yields exactly the binding *)
Lemma bind_normalise s pos kw vals rest ex :
  varargs s = false -> bind s pos kw = Some (vals, rest, ex) ->
  rest = [] /\ normalise s pos kw = Some (map KPos vals ++ map kw_elt ex).
Proof.
  intros Hv. unfold bind, normalise, arg_names. rewrite Hv. cbn [negb andb].
  destruct (length (pnames s) <? length pos)%nat eqn:Hl; [discriminate|]. apply Nat.ltb_ge in Hl.
  destruct (existsb _ kw); [discriminate|].
  destruct (negb (varkw s) && _); [discriminate|].
  rewrite (skipn_names _ _ _ Hl), fill_fill_ref.
  destruct (fill_ref _ kw (dflts s)) as [vs|]; [|discriminate].
  intros H; inversion H; subst; clear H.
  rewrite (firstn_all2 pos) by exact Hl. rewrite (skipn_all2 pos) by exact Hl. split; reflexivity.
Qed.

(* with the repaired keygetter this holds for every signature *)
Lemma bind_keygetter s pos kw b :
  bind s pos kw = Some b -> keygetter Repaired s pos kw = Some (enc s b).
Proof.
  destruct b as [[vals rest] ex]. intros H. unfold keygetter, enc.
  destruct (varargs s) eqn:Hv.
  - revert H. unfold bind, normalise, arg_names. rewrite Hv. cbn [negb andb].
    destruct (existsb _ kw); [discriminate|].
    destruct (negb (varkw s) && _); [discriminate|].
    assert (E : skipn (length (firstn (length (pnames s)) pos)) (pnames s ++ konly s)
                = skipn (length pos) (pnames s) ++ konly s).
    { rewrite firstn_length. destruct (Nat.le_gt_cases (length pos) (length (pnames s))) as [L|L].
      - rewrite Nat.min_r by exact L. apply skipn_names, L.
      - rewrite Nat.min_l by lia. rewrite skipn_names by lia.
        rewrite skipn_all. rewrite (skipn_all2 (pnames s)) by lia. reflexivity. }
    rewrite E, fill_fill_ref.
    destruct (fill_ref _ kw (dflts s)) as [vs|]; [|discriminate].
    intros H; inversion H; subst; clear H. reflexivity.
  - destruct (bind_normalise _ _ _ _ _ _ Hv H) as [_ ->]. reflexivity.
Qed.

Lemma bind_rest_novar s pos kw vals rest ex :
  varargs s = false -> bind s pos kw = Some (vals, rest, ex) -> rest = [].
Proof. intros Hv H. exact (proj1 (bind_normalise _ _ _ _ _ _ Hv H)). Qed.

Lemma enc_inj s b1 b2 :
  (varargs s = false -> snd (fst b1) = [] /\ snd (fst b2) = []) -> enc s b1 = enc s b2 -> b1 = b2.
Proof.
  destruct b1 as [[v1 r1] e1], b2 as [[v2 r2] e2]. unfold enc. cbn [fst snd]. intros Hr.
  destruct (varargs s).
  - intros H. inversion H as [[H1 H2]]. destruct (enc_body_inj _ _ _ _ H2). subst. reflexivity.
  - destruct (Hr eq_refl). subst. intros H. destruct (enc_body_inj _ _ _ _ H). subst. reflexivity.
Qed.

(* T4: two well-formed spellings get the same key component iff they bind the same arguments *)
Lemma normalise_sound s p1 k1 p2 k2 b1 b2 :
  bind s p1 k1 = Some b1 -> bind s p2 k2 = Some b2 ->
  (keygetter Repaired s p1 k1 = keygetter Repaired s p2 k2 <-> b1 = b2).
Proof.
  intros H1 H2. rewrite (bind_keygetter _ _ _ _ H1), (bind_keygetter _ _ _ _ H2). split.
  - intros H. inversion H as [H']. apply (enc_inj s); [|exact H'].
    intros Hv. destruct b1 as [[? ?] ?], b2 as [[? ?] ?]. cbn.
    split; eapply bind_rest_novar; eauto.
  - intros ->. reflexivity.
Qed.

(* the code as written: the same, but only for functions without *rest *)
Lemma normalise_sound_as_written s p1 k1 p2 k2 b1 b2 :
  varargs s = false -> bind s p1 k1 = Some b1 -> bind s p2 k2 = Some b2 ->
  (keygetter AsWritten s p1 k1 = keygetter AsWritten s p2 k2 <-> b1 = b2).
Proof.
  intros Hv H1 H2.
  assert (E : forall p k, keygetter AsWritten s p k = keygetter Repaired s p k).
  { intros. unfold keygetter. rewrite Hv. reflexivity. }
  rewrite !E. apply normalise_sound; assumption.
Qed.

(* ... and it fails with *rest: f6(1, 2) and f6(1, d=2) of  def f6(a, *rest, d=0) *)
Lemma normalise_as_written_varargs_refuted :
  let s := sig_of 6 in
  exists p1 k1 p2 k2 b1 b2,
    bind s p1 k1 = Some b1 /\ bind s p2 k2 = Some b2 /\ b1 <> b2 /\
    keygetter AsWritten s p1 k1 = keygetter AsWritten s p2 k2.
Proof.
  exists [AInt 1; AInt 2], [], [AInt 1], [(N_D, AInt 2)].
  eexists. eexists. split; [vm_compute; reflexivity|]. split; [vm_compute; reflexivity|].
  split; [discriminate|reflexivity].
Qed.

(* the key carries the function id and the thread; a method's key starts with its instance *)
Lemma key_of_components v c n th fn :
  key_of v c = Some (n, th, fn) -> th = cthread c /\ fn = fid_of c.
Proof.
  unfold key_of. destruct (keygetter v _ _ _); [|discriminate]. intros H; inversion H; auto.
Qed.

(* what makes two calls calls of different callables / contexts: another def statement, another
   execution of the same def statement (a different function object with the same module and
   qualname), another thread, or (methods) another instance *)
Definition differ (c1 c2 : callspec) : Prop :=
  cfn c1 <> cfn c2 \/ cgen c1 <> cgen c2 \/ cthread c1 <> cthread c2 \/
  (cfn c1 = 4 /\ cfn c2 = 4 /\ cinst c1 <> cinst c2).

Lemma keys_differ_by_function_or_thread v c1 c2 k1 k2 :
  key_of v c1 = Some k1 -> key_of v c2 = Some k2 ->
  (cfn c1 <> cfn c2 \/ cgen c1 <> cgen c2 \/ cthread c1 <> cthread c2) -> k1 <> k2.
Proof.
  destruct k1 as [[n1 t1] f1], k2 as [[n2 t2] f2]. intros H1 H2 Hd E.
  apply key_of_components in H1, H2. inversion E; subst. destruct H1 as [T1 F1], H2 as [T2 F2].
  unfold fid_of in *. rewrite F1 in F2. inversion F2. destruct Hd as [|[|]]; congruence.
Qed.

Lemma keys_differ_by_instance v c1 c2 k1 k2 :
  cfn c1 = 4 -> cfn c2 = 4 -> cinst c1 <> cinst c2 ->
  key_of v c1 = Some k1 -> key_of v c2 = Some k2 -> k1 <> k2.
Proof.
  intros F1 F2 Hi. unfold key_of, full_pos. rewrite F1, F2. cbn [Z.eqb Pos.eqb].
  assert (E : forall g i pos kw, keygetter v (sig_of 4) (AInst g i :: pos) kw
              = match fill (skipn (length pos) [N_A; N_B]) kw [(N_B, AInt 0)] with
                | None => None
                | Some fl => Some (KPos (AInst g i) :: map KPos (pos ++ fl) ++ map kw_elt (extras [N_SELF; N_A; N_B] kw))
                end).
  { intros. destruct v; reflexivity. }
  rewrite !E.
  destruct (fill _ (ckw c1) _); [|discriminate]. destruct (fill _ (ckw c2) _); [|discriminate].
  intros H1 H2. inversion H1; inversion H2; subst. intros Ek. inversion Ek. congruence.
Qed.

(* ================================================================ the state machine *)

Lemma find_remove_same k m : find k (remove k m) = None.
Proof.
  induction m as [|[k' t] m IH]; cbn; [reflexivity|].
  destruct (key_eq_dec k k'); cbn; [exact IH|].
  destruct (key_eq_dec k k'); [contradiction|exact IH].
Qed.

Lemma find_remove_other k k' m : k <> k' -> find k' (remove k m) = find k' m.
Proof.
  intros Hn. induction m as [|[k0 t] m IH]; cbn; [reflexivity|].
  destruct (key_eq_dec k k0); cbn.
  - subst. destruct (key_eq_dec k' k0); [congruence|exact IH].
  - destruct (key_eq_dec k' k0); [reflexivity|exact IH].
Qed.

Lemma find_remove_some k k' m t : find k' (remove k m) = Some t -> k <> k' /\ find k' m = Some t.
Proof.
  intros H. destruct (key_eq_dec k k') as [->|Hn].
  - rewrite find_remove_same in H. discriminate.
  - split; [exact Hn|]. rewrite find_remove_other in H; assumption.
Qed.

Lemma nth_upd_same l t f x : nth_error l t = Some x -> nth_error (upd l t f) t = Some (f x).
Proof.
  revert t; induction l as [|y l IH]; destruct t; cbn; intros H; try discriminate.
  - inversion H; reflexivity.
  - apply IH, H.
Qed.

Lemma nth_upd_other l t u f : t <> u -> nth_error (upd l t f) u = nth_error l u.
Proof.
  revert t u; induction l as [|y l IH]; destruct t, u; cbn; intros H; try reflexivity; try congruence.
  apply IH. congruence.
Qed.

Lemma nth_upd l t u f x :
  nth_error l u = Some x ->
  nth_error (upd l t f) u = Some (if Nat.eqb t u then f x else x).
Proof.
  intros H. destruct (Nat.eqb t u) eqn:E.
  - apply Nat.eqb_eq in E; subst. apply nth_upd_same, H.
  - apply Nat.eqb_neq in E. rewrite nth_upd_other; assumption.
Qed.

Lemma nth_upd_inv l t u f y :
  nth_error (upd l t f) u = Some y ->
  exists x, nth_error l u = Some x /\ y = if Nat.eqb t u then f x else x.
Proof.
  revert t u; induction l as [|z l IH]; destruct t, u; cbn; intros H; try discriminate.
  - inversion H. eexists; split; reflexivity.
  - eexists; split; [exact H|reflexivity].
  - inversion H. eexists; split; reflexivity.
  - apply IH in H. exact H.
Qed.

Lemma nth_app_old {A} (l : list A) x t y : nth_error l t = Some y -> nth_error (l ++ [x]) t = Some y.
Proof. intros H. rewrite nth_error_app1; [exact H|]. apply nth_error_Some. congruence. Qed.

Lemma nth_app_inv {A} (l : list A) x t y :
  nth_error (l ++ [x]) t = Some y -> nth_error l t = Some y \/ (t = length l /\ y = x).
Proof.
  intros H. destruct (Nat.lt_ge_cases t (length l)) as [L|L].
  - rewrite nth_error_app1 in H by exact L. left; exact H.
  - rewrite nth_error_app2 in H by exact L. right.
    destruct (t - length l)%nat eqn:E; cbn in H.
    + inversion H. split; [lia|reflexivity].
    + destruct n; discriminate.
Qed.

(* registered tasks are in flight, carry the key they are registered under and own a callback *)
Definition reg_ok (st : state) : Prop :=
  forall k t, find k (reg st) = Some t ->
    exists x, nth_error (pool st) t = Some x /\ tkey x = k /\ tcb x = true /\ tstatus x <> Done.

(* life cycle bookkeeping: the body starts once; an outcome exists exactly when Done *)
Definition life_ok (x : task) : Prop :=
  match tstatus x with
  | Created => tstarts x = O /\ tout x = None
  | Done => tstarts x = 1%nat /\ tout x <> None
  | _ => tstarts x = 1%nat /\ tout x = None
  end.
Definition pool_ok (st : state) : Prop := forall t x, nth_error (pool st) t = Some x -> life_ok x.

Inductive reach (v : variant) : state -> Prop :=
| reach_init : reach v init
| reach_step st a : reach v st -> reach v (fst (micro v st a)).

Lemma reach_run v st acts : reach v st -> reach v (fst (run_micro v st acts)).
Proof.
  revert st; induction acts as [|a acts IH]; intros st H; cbn; [exact H|].
  destruct (micro v st a) as [s1 r] eqn:E. specialize (IH s1).
  destruct (run_micro v s1 acts) as [s2 rs]. cbn in *. apply IH.
  replace s1 with (fst (micro v st a)) by (rewrite E; reflexivity). constructor; exact H.
Qed.

Ltac inv_some := match goal with H : Some _ = Some _ |- _ => inversion H; subst; clear H end.

Lemma callback_repaired_some k t m k0 t0 :
  find k0 (callback Repaired k t m) = Some t0 ->
  find k0 m = Some t0 /\ (t0 = t -> k0 <> k).
Proof.
  unfold callback. destruct (find k m) as [u|] eqn:E.
  - destruct (Nat.eqb u t) eqn:Eu.
    + intros H. apply find_remove_some in H. destruct H as [Hn H]. split; [exact H|]. intros _ ?; congruence.
    + intros H. split; [exact H|]. intros -> ->. apply Nat.eqb_neq in Eu. congruence.
  - intros H. split; [exact H|]. intros -> ->. congruence.
Qed.

Lemma reg_ok_step st a : reg_ok st -> reg_ok (fst (micro Repaired st a)).
Proof.
  intros H. destruct a as [c|c|t|t|t o]; unfold micro.
  - (* call *)
    destruct (key_of Repaired c) as [k|]; [|exact H].
    destruct (find k (reg st)) as [u|] eqn:Ef.
    + destruct (is_running st u); [|exact H].
      destruct (bind_of c); [|exact H]. cbn. intros k0 t0 H0.
      destruct (H _ _ H0) as (x & Hx & ?). exists x. split; [apply nth_app_old, Hx|assumption].
    + destruct (bind_of c); [|exact H]. unfold reg_ok. cbn. intros k0 t0.
      destruct (key_eq_dec k0 k) as [->|Hn]; intros H0.
      * inv_some. exists (new_task k true). rewrite nth_error_app2 by lia. rewrite Nat.sub_diag.
        cbn. repeat split; discriminate.
      * destruct (H _ _ H0) as (x & Hx & ?). exists x. split; [apply nth_app_old, Hx|assumption].
  - (* dirty *)
    destruct (key_of Repaired c) as [k|]; [|exact H]. cbn. intros k0 t0 H0.
    apply find_remove_some in H0. destruct H0 as [_ H0]. exact (H _ _ H0).
  - (* run *)
    unfold status_of. destruct (nth_error (pool st) t) as [y|] eqn:Ey; [|exact H]. cbn.
    destruct (tstatus y) eqn:Es; try exact H; cbn; intros k0 t0 H0;
      destruct (H _ _ H0) as (x & Hx & Hk & Hc & Hd);
      (eexists; split; [apply nth_upd, Hx|]); destruct (Nat.eqb t t0); cbn; repeat split; auto; discriminate.
  - (* gate *)
    unfold status_of. destruct (nth_error (pool st) t) as [y|] eqn:Ey; [|exact H]. cbn.
    destruct (tstatus y) eqn:Es; try exact H; cbn; intros k0 t0 H0;
      destruct (H _ _ H0) as (x & Hx & Hk & Hc & Hd);
      (eexists; split; [apply nth_upd, Hx|]); destruct (Nat.eqb t t0); cbn; repeat split; auto; discriminate.
  - (* finish *)
    destruct (nth_error (pool st) t) as [y|] eqn:Ey; [|exact H].
    destruct (tstatus y) eqn:Es; try exact H. unfold reg_ok. cbn [fst reg pool]. intros k0 t0 H0.
    assert (Hold : find k0 (reg st) = Some t0 /\ t0 <> t).
    { destruct (tcb y) eqn:Ec.
      - apply callback_repaired_some in H0. destruct H0 as [H0 Hne]. split; [exact H0|].
        intros ->. destruct (H _ _ H0) as (x & Hx & Hk & _). rewrite Ey in Hx. inv_some.
        apply Hne; reflexivity.
      - split; [exact H0|]. intros ->. destruct (H _ _ H0) as (x & Hx & _ & Hc & _).
        rewrite Ey in Hx. inv_some. congruence. }
    destruct Hold as [Hf Hne]. destruct (H _ _ Hf) as (x & Hx & ?).
    exists x. split; [|assumption]. rewrite nth_upd_other; [exact Hx|congruence].
Qed.

Lemma pool_ok_step v st a : pool_ok st -> pool_ok (fst (micro v st a)).
Proof.
  intros H. destruct a as [c|c|t|t|t o]; unfold micro.
  - destruct (key_of v c) as [k|]; [|exact H].
    destruct (find k (reg st)) as [u|].
    + destruct (is_running st u); [|exact H]. destruct (bind_of c); [|exact H]. cbn.
      intros t0 x Hx. apply nth_app_inv in Hx. destruct Hx as [Hx|[_ ->]]; [exact (H _ _ Hx)|].
      cbn. split; reflexivity.
    + destruct (bind_of c); [|exact H]. cbn.
      intros t0 x Hx. apply nth_app_inv in Hx. destruct Hx as [Hx|[_ ->]]; [exact (H _ _ Hx)|].
      cbn. split; reflexivity.
  - destruct (key_of v c); exact H.
  - unfold status_of. destruct (nth_error (pool st) t) as [y|] eqn:Ey; [|exact H]. cbn.
    destruct (tstatus y) eqn:Es; try exact H; cbn; intros t0 x Hx; apply nth_upd_inv in Hx;
      destruct Hx as (x0 & Hx0 & ->); destruct (Nat.eqb t t0) eqn:E; try exact (H _ _ Hx0);
      apply Nat.eqb_eq in E; subst; rewrite Ey in Hx0; inv_some;
      specialize (H _ _ Ey); unfold life_ok in *; rewrite Es in H; cbn; destruct H; split; congruence.
  - unfold status_of. destruct (nth_error (pool st) t) as [y|] eqn:Ey; [|exact H]. cbn.
    destruct (tstatus y) eqn:Es; try exact H; cbn; intros t0 x Hx; apply nth_upd_inv in Hx;
      destruct Hx as (x0 & Hx0 & ->); destruct (Nat.eqb t t0) eqn:E; try exact (H _ _ Hx0);
      apply Nat.eqb_eq in E; subst; rewrite Ey in Hx0; inv_some;
      specialize (H _ _ Ey); unfold life_ok in *; rewrite Es in H; cbn; exact H.
  - destruct (nth_error (pool st) t) as [y|] eqn:Ey; [|exact H].
    destruct (tstatus y) eqn:Es; try exact H. cbn. intros t0 x Hx. apply nth_upd_inv in Hx.
    destruct Hx as (x0 & Hx0 & ->). destruct (Nat.eqb t t0) eqn:E; [|exact (H _ _ Hx0)].
    apply Nat.eqb_eq in E; subst. rewrite Ey in Hx0. inv_some.
    specialize (H _ _ Ey). unfold life_ok in *. rewrite Es in H. cbn. destruct H. split; [assumption|discriminate].
Qed.

Lemma reach_reg_ok st : reach Repaired st -> reg_ok st.
Proof. induction 1; [intros k t H; discriminate|apply reg_ok_step; assumption]. Qed.

Lemma reach_pool_ok v st : reach v st -> pool_ok st.
Proof. induction 1; [intros [|t] x H; discriminate|apply pool_ok_step; assumption]. Qed.

(* ---------------------------------------------------------------- T1 shared while in flight *)

(* a call whose key maps to a task that is not running returns that very task, creating nothing *)
Lemma call_shares v st c k t :
  key_of v c = Some k -> find k (reg st) = Some t -> is_running st t = false ->
  micro v st (ACall c) = (st, MTask t false).
Proof. intros Hk Hf Hr. unfold micro. rewrite Hk, Hf, Hr. reflexivity. Qed.

Definition harmless (v : variant) (k : key) (t : nat) (a : action) : Prop :=
  match a with
  | ADirty c => key_of v c <> Some k        (* no dirty() for this key *)
  | AFinish u _ => u <> t                   (* t itself does not complete *)
  | _ => True
  end.

(* with the repaired callback nothing but dirty(k) or t's own completion unregisters t *)
Lemma owner_preserved st a k t :
  find k (reg st) = Some t -> harmless Repaired k t a ->
  find k (reg (fst (micro Repaired st a))) = Some t.
Proof.
  intros Hf Hh. destruct a as [c|c|u|u|u o]; unfold micro.
  - destruct (key_of Repaired c) as [k'|]; [|exact Hf].
    destruct (find k' (reg st)) as [w|] eqn:Ef.
    + destruct (is_running st w); [|exact Hf]. destruct (bind_of c); exact Hf.
    + destruct (bind_of c); [|exact Hf]. cbn.
      destruct (key_eq_dec k k') as [->|]; [congruence|exact Hf].
  - cbn in Hh. destruct (key_of Repaired c) as [k'|]; [|exact Hf]. cbn.
    rewrite find_remove_other; [exact Hf|congruence].
  - unfold status_of. destruct (nth_error (pool st) u) as [y|]; [|exact Hf]. cbn.
    destruct (tstatus y); exact Hf.
  - unfold status_of. destruct (nth_error (pool st) u) as [y|]; [|exact Hf]. cbn.
    destruct (tstatus y); exact Hf.
  - cbn in Hh. destruct (nth_error (pool st) u) as [y|]; [|exact Hf].
    destruct (tstatus y); try exact Hf. cbn. destruct (tcb y); [|exact Hf].
    unfold callback. destruct (find (tkey y) (reg st)) as [w|] eqn:Ew; [|exact Hf].
    destruct (Nat.eqb w u) eqn:E; [|exact Hf]. apply Nat.eqb_eq in E; subst.
    rewrite find_remove_other; [exact Hf|]. intros <-. congruence.
Qed.

Fixpoint all_harmless (v : variant) (k : key) (t : nat) (acts : list action) : Prop :=
  match acts with
  | [] => True
  | a :: r => harmless v k t a /\ all_harmless v k t r
  end.

(* every call for k issued while t is not running returns t and creates nothing *)
Fixpoint calls_share (v : variant) (st : state) (k : key) (t : nat) (acts : list action) : Prop :=
  match acts with
  | [] => True
  | a :: r =>
    match a with
    | ACall c => key_of v c = Some k -> is_running st t = false -> micro v st a = (st, MTask t false)
    | _ => True
    end /\ calls_share v (fst (micro v st a)) k t r
  end.

Definition shared_statement (v : variant) : Prop :=
  forall acts st k t,
    find k (reg st) = Some t -> all_harmless v k t acts ->
    calls_share v st k t acts /\ find k (reg (fst (run_micro v st acts))) = Some t.

Lemma shared_while_in_flight : shared_statement Repaired.
Proof.
  intros acts; induction acts as [|a acts IH]; intros st k t Hf Hh; cbn.
  - split; [exact I|exact Hf].
  - destruct Hh as [Ha Hr]. pose proof (owner_preserved _ _ _ _ Hf Ha) as Hf'.
    destruct (IH _ _ _ Hf' Hr) as [Hs Hfin]. split.
    + split; [|exact Hs]. destruct a; try exact I. intros Hk Hrun. apply (call_shares _ _ _ k); assumption.
    + destruct (micro Repaired st a) as [s1 r] eqn:E. cbn in Hfin.
      destruct (run_micro Repaired s1 acts) as [s2 rs]. exact Hfin.
Qed.

(* the creating call: registers a new task whose body has not started *)
Lemma call_when_absent_creates v st c k :
  key_of v c = Some k -> find k (reg st) = None -> bind_of c <> None ->
  exists st', micro v st (ACall c) = (st', MTask (length (pool st)) true) /\
              find k (reg st') = Some (length (pool st)) /\
              nth_error (pool st') (length (pool st)) = Some (new_task k true).
Proof.
  intros Hk Hf Hb. unfold micro. rewrite Hk, Hf. destruct (bind_of c); [|congruence].
  eexists. split; [reflexivity|]. cbn. destruct (key_eq_dec k k); [|congruence]. split; [reflexivity|].
  rewrite nth_error_app2 by lia. rewrite Nat.sub_diag. reflexivity.
Qed.

(* the code as written violates the statement: 4 actions set up the state, 2 more show it *)
Lemma shared_as_written_refuted : ~ shared_statement AsWritten.
Proof.
  intros H.
  pose (c := mkCall 0 0 0 0 [AInt 1] []).
  pose (st := fst (run_micro AsWritten init [ACall c; ADirty c; ACall c; ARun 0])).
  destruct (key_of AsWritten c) as [k|] eqn:Ek; [|vm_compute in Ek; discriminate].
  specialize (H [AFinish 0 (Ok VNone); ACall c] st k 1%nat).
  assert (Hf : find k (reg st) = Some 1%nat) by (vm_compute in Ek; inversion Ek; subst k; vm_compute; reflexivity).
  assert (Hh : all_harmless AsWritten k 1 [AFinish 0 (Ok VNone); ACall c]) by (cbn; repeat split; discriminate).
  destruct (H Hf Hh) as [_ Hfin]. vm_compute in Ek; inversion Ek; subst k. vm_compute in Hfin. discriminate.
Qed.

(* ---------------------------------------------------------------- T2 rerun after done or dirty *)

Lemma registered_in_flight st k t :
  reach Repaired st -> find k (reg st) = Some t ->
  exists x, nth_error (pool st) t = Some x /\ tkey x = k /\ tstatus x <> Done.
Proof. intros Hr Hf. destruct (reach_reg_ok _ Hr _ _ Hf) as (x & ? & ? & _ & ?). eauto. Qed.

(* a call never hands out a completed task: what it returns is new, or registered and in flight *)
Lemma call_returns_in_flight st c st' t :
  reach Repaired st -> micro Repaired st (ACall c) = (st', MTask t false) ->
  exists x, nth_error (pool st) t = Some x /\ Some (tkey x) = key_of Repaired c /\
            tstatus x <> Done /\ tstatus x <> Running.
Proof.
  intros Hr. unfold micro. destruct (key_of Repaired c) as [k|]; [|discriminate].
  destruct (find k (reg st)) as [u|] eqn:Ef.
  - destruct (is_running st u) eqn:Er.
    + destruct (bind_of c); discriminate.
    + intros H; inversion H; subst. destruct (registered_in_flight _ _ _ Hr Ef) as (x & Hx & Hk & Hd).
      exists x. repeat split; auto; [congruence|]. unfold is_running, status_of in Er. rewrite Hx in Er. cbn in Er.
      intros E; rewrite E in Er; discriminate.
  - destruct (bind_of c); discriminate.
Qed.

Lemma dirty_unregisters v st c k :
  key_of v c = Some k -> find k (reg (fst (micro v st (ADirty c)))) = None.
Proof. intros Hk. unfold micro. rewrite Hk. cbn. apply find_remove_same. Qed.

Lemma finish_unregisters st k t o :
  reach Repaired st -> find k (reg st) = Some t -> is_running st t = true ->
  find k (reg (fst (micro Repaired st (AFinish t o)))) = None.
Proof.
  intros Hr Hf Hrun. destruct (reach_reg_ok _ Hr _ _ Hf) as (x & Hx & Hk & Hc & _).
  unfold is_running, status_of in Hrun. rewrite Hx in Hrun. cbn in Hrun.
  unfold micro. rewrite Hx. destruct (tstatus x); try discriminate. cbn. rewrite Hc, Hk.
  unfold callback. rewrite Hf, Nat.eqb_refl. apply find_remove_same.
Qed.

(* ---------------------------------------------------------------- T3 keys never share a task *)

Lemma call_key st c st' t b :
  reach Repaired st -> micro Repaired st (ACall c) = (st', MTask t b) ->
  exists x, nth_error (pool st') t = Some x /\ Some (tkey x) = key_of Repaired c.
Proof.
  intros Hr. unfold micro. destruct (key_of Repaired c) as [k|]; [|discriminate].
  destruct (find k (reg st)) as [u|] eqn:Ef.
  - destruct (is_running st u).
    + destruct (bind_of c); [|discriminate]. intros H; inversion H; subst. cbn.
      exists (new_task k false). rewrite nth_error_app2 by lia. rewrite Nat.sub_diag. split; reflexivity.
    + intros H; inversion H; subst. destruct (registered_in_flight _ _ _ Hr Ef) as (x & Hx & Hk & _).
      exists x. split; [exact Hx|congruence].
  - destruct (bind_of c); [|discriminate]. intros H; inversion H; subst. cbn.
    exists (new_task k true). rewrite nth_error_app2 by lia. rewrite Nat.sub_diag. split; reflexivity.
Qed.

Lemma tkey_stable v st a t x :
  nth_error (pool st) t = Some x ->
  exists x', nth_error (pool (fst (micro v st a))) t = Some x' /\ tkey x' = tkey x.
Proof.
  intros Hx. destruct a as [c|c|u|u|u o]; unfold micro.
  - destruct (key_of v c) as [k|]; [|eauto].
    destruct (find k (reg st)) as [w|].
    + destruct (is_running st w); [|eauto]. destruct (bind_of c); [|eauto]. cbn.
      exists x. split; [apply nth_app_old, Hx|reflexivity].
    + destruct (bind_of c); [|eauto]. cbn. exists x. split; [apply nth_app_old, Hx|reflexivity].
  - destruct (key_of v c); cbn; eauto.
  - unfold status_of. destruct (nth_error (pool st) u) as [y|]; [|eauto]. cbn.
    destruct (tstatus y); eauto; cbn; (eexists; split; [apply nth_upd, Hx|]); destruct (Nat.eqb u t); reflexivity.
  - unfold status_of. destruct (nth_error (pool st) u) as [y|]; [|eauto]. cbn.
    destruct (tstatus y); eauto; cbn; (eexists; split; [apply nth_upd, Hx|]); destruct (Nat.eqb u t); reflexivity.
  - destruct (nth_error (pool st) u) as [y|]; [|eauto].
    destruct (tstatus y); eauto; cbn; (eexists; split; [apply nth_upd, Hx|]); destruct (Nat.eqb u t); reflexivity.
Qed.

Lemma tkey_stable_run v acts st t x :
  nth_error (pool st) t = Some x ->
  exists x', nth_error (pool (fst (run_micro v st acts))) t = Some x' /\ tkey x' = tkey x.
Proof.
  revert st x; induction acts as [|a acts IH]; intros st x Hx; cbn; [eauto|].
  destruct (tkey_stable v st a t x Hx) as (x1 & Hx1 & Hk1).
  destruct (micro v st a) as [s1 r] eqn:E. cbn in Hx1.
  destruct (IH s1 x1 Hx1) as (x2 & Hx2 & Hk2).
  destruct (run_micro v s1 acts) as [s2 rs]. cbn in *. exists x2. split; [exact Hx2|congruence].
Qed.

(* two calls, anywhere in any history, that receive the same task have the same key *)
Lemma keys_disjoint st c1 s1 t b1 acts c2 b2 :
  reach Repaired st ->
  micro Repaired st (ACall c1) = (s1, MTask t b1) ->
  snd (micro Repaired (fst (run_micro Repaired s1 acts)) (ACall c2)) = MTask t b2 ->
  key_of Repaired c1 = key_of Repaired c2.
Proof.
  intros Hr H1 H2.
  destruct (call_key _ _ _ _ _ Hr H1) as (x1 & Hx1 & Hk1).
  assert (Hr1 : reach Repaired s1).
  { replace s1 with (fst (micro Repaired st (ACall c1))) by (rewrite H1; reflexivity). constructor; exact Hr. }
  pose proof (reach_run Repaired s1 acts Hr1) as Hr2.
  destruct (tkey_stable_run Repaired acts s1 t x1 Hx1) as (x2 & Hx2 & Hk2).
  set (s2 := fst (run_micro Repaired s1 acts)) in *.
  destruct (micro Repaired s2 (ACall c2)) as [s3 r] eqn:E. cbn in H2. subst r.
  destruct (call_key _ _ _ _ _ Hr2 E) as (x3 & Hx3 & Hk3).
  destruct (tkey_stable Repaired s2 (ACall c2) t x2 Hx2) as (x3' & Hx3' & Hk3').
  rewrite E in Hx3'. cbn in Hx3'. rewrite Hx3 in Hx3'. inv_some. congruence.
Qed.

(* ---------------------------------------------------------------- body runs once, one outcome *)

Lemma body_runs_once v st t x :
  reach v st -> nth_error (pool st) t = Some x ->
  (tstarts x <= 1)%nat /\ (tstatus x <> Created -> tstarts x = 1%nat) /\ (tout x <> None <-> tstatus x = Done).
Proof.
  intros Hr Hx. pose proof (reach_pool_ok _ _ Hr _ _ Hx) as H. unfold life_ok in H.
  destruct (tstatus x); destruct H as [H1 H2]; rewrite H1; repeat split; try lia; try congruence; intros; try discriminate; tauto.
Qed.

(* once a task has an outcome no action changes the task any more *)
Lemma outcome_stable v st a t x o :
  reach v st -> nth_error (pool st) t = Some x -> tout x = Some o ->
  nth_error (pool (fst (micro v st a))) t = Some x.
Proof.
  intros Hr Hx Ho. pose proof (reach_pool_ok _ _ Hr _ _ Hx) as Hl. unfold life_ok in Hl.
  assert (Hd : tstatus x = Done). { destruct (tstatus x); destruct Hl; congruence. }
  destruct a as [c|c|u|u|u o']; unfold micro.
  - destruct (key_of v c) as [k|]; [|exact Hx].
    destruct (find k (reg st)) as [w|].
    + destruct (is_running st w); [|exact Hx]. destruct (bind_of c); [|exact Hx]. cbn. apply nth_app_old, Hx.
    + destruct (bind_of c); [|exact Hx]. cbn. apply nth_app_old, Hx.
  - destruct (key_of v c); exact Hx.
  - unfold status_of. destruct (nth_error (pool st) u) as [y|] eqn:Ey; [|exact Hx]. cbn.
    destruct (tstatus y) eqn:Es; try exact Hx; cbn; rewrite nth_upd_other; try exact Hx; intros ->; congruence.
  - unfold status_of. destruct (nth_error (pool st) u) as [y|] eqn:Ey; [|exact Hx]. cbn.
    destruct (tstatus y) eqn:Es; try exact Hx; cbn; rewrite nth_upd_other; try exact Hx; intros ->; congruence.
  - destruct (nth_error (pool st) u) as [y|] eqn:Ey; [|exact Hx].
    destruct (tstatus y) eqn:Es; try exact Hx; cbn; rewrite nth_upd_other; try exact Hx; intros ->; congruence.
Qed.

(* ================================================================ the driver only acts through micro *)

Lemma reach_micro v st a s r : reach v st -> micro v st a = (s, r) -> reach v s.
Proof. intros H E. replace s with (fst (micro v st a)) by (rewrite E; reflexivity). constructor; exact H. Qed.

Lemma d_call_reach v d ctx c : reach v (core d) -> reach v (core (d_call v d ctx c)).
Proof.
  intros H. unfold d_call. destruct (micro v (core d) (ACall c)) as [s r] eqn:E.
  pose proof (reach_micro _ _ _ _ _ H E). destruct r; cbn [core]; assumption.
Qed.

Lemma d_dirty_reach v d ctx c : reach v (core d) -> reach v (core (d_dirty v d ctx c)).
Proof.
  intros H. unfold d_dirty. destruct (micro v (core d) (ADirty c)) as [s r] eqn:E.
  cbn [core]. exact (reach_micro _ _ _ _ _ H E).
Qed.

Lemma d_fcall_reach v d ctx c : reach v (core d) -> reach v (core (d_fcall v d ctx c)).
Proof.
  intros H. unfold d_fcall. destruct (micro v (core d) (ACall c)) as [s r] eqn:E.
  pose proof (reach_micro _ _ _ _ _ H E). destruct r; cbn [core]; assumption.
Qed.

Lemma d_fcall_core v d ctx c : core (d_fcall v d ctx c) = fst (micro v (core d) (ACall c)).
Proof. unfold d_fcall. destruct (micro v (core d) (ACall c)) as [s r]. destruct r; reflexivity. Qed.

Lemma fst_run_micro_cons v st a acts :
  fst (run_micro v st (a :: acts)) = fst (run_micro v (fst (micro v st a)) acts).
Proof. cbn. destruct (micro v st a) as [s1 r]. cbn. destruct (run_micro v s1 acts) as [s2 rs]. reflexivity. Qed.

(* the compact fan-out op is nothing but its calls, performed one after the other through micro *)
Lemma fan_is_calls v d ctx th fn gen inst sp lo n :
  core (d_fan v d ctx th fn gen inst sp lo n)
  = fst (run_micro v (core d) (map ACall (fan_calls th fn gen inst sp lo n))).
Proof.
  unfold d_fan. generalize (fan_calls th fn gen inst sp lo n) as cs. intros cs. revert d.
  induction cs as [|c cs IH]; intros d; [reflexivity|].
  cbn [fold_left map]. rewrite IH, fst_run_micro_cons, d_fcall_core. reflexivity.
Qed.

Lemma d_fan_reach v d ctx th fn gen inst sp lo n :
  reach v (core d) -> reach v (core (d_fan v d ctx th fn gen inst sp lo n)).
Proof. intros H. rewrite fan_is_calls. apply reach_run, H. Qed.

Lemma run_steps_reach v steps : forall d t e f, reach v (core d) -> reach v (core (run_steps v d t e steps f)).
Proof.
  induction steps as [|s steps IH]; intros d t e f H; cbn [run_steps].
  - destruct (micro v (core d) (AFinish t (outcome_of f))) as [s' r] eqn:E. cbn [core]. exact (reach_micro _ _ _ _ _ H E).
  - destruct s.
    + destruct (micro v (core d) (AGate t)) as [s' r] eqn:E. cbn [core]. exact (reach_micro _ _ _ _ _ H E).
    + apply IH, d_call_reach, H.
    + apply IH, d_dirty_reach, H.
    + apply IH, d_fan_reach, H.
Qed.

Lemma d_start_reach v scripts d t : reach v (core d) -> reach v (core (d_start v scripts d t)).
Proof.
  intros H. unfold d_start. destruct (micro v (core d) (ARun t)) as [s' r] eqn:E.
  destruct (nth (nexec d) scripts ([], Ret 0)) as [steps f]. apply run_steps_reach. cbn [core].
  exact (reach_micro _ _ _ _ _ H E).
Qed.

Lemma d_go_reach v scripts d : reach v (core d) -> reach v (core (d_go v scripts d)).
Proof.
  intros H. unfold d_go.
  set (d0 := mkD (core d) (nexec d) (gated d) [] (callers d) (ncall d) (trace d)).
  assert (H0 : reach v (core d0)) by exact H. clearbody d0. revert d0 H0.
  induction (fresh d) as [|ct l IH]; intros d0 H0; cbn [fold_left]; [exact H0|].
  apply IH. destruct (status_of (core d0) (snd ct)) as [[| | |]|]; try exact H0. apply d_start_reach, H0.
Qed.

Lemma d_flush_reach v d e : reach v (core d) -> reach v (core (d_flush v d e)).
Proof.
  intros H. unfold d_flush. destruct (take_gated e (gated d)) as [[[t [steps f]] g']|]; [|exact H].
  destruct (micro v (core d) (ARun t)) as [s' r] eqn:E. apply run_steps_reach. cbn [core].
  exact (reach_micro _ _ _ _ _ H E).
Qed.

Lemma d_group_reach v ops : forall d, reach v (core d) -> reach v (core (fst (d_group v d ops))).
Proof.
  induction ops as [|o ops IH]; intros d H; cbn [d_group fst]; [exact H|].
  destruct o; cbn [d_group fst]; try exact H.
  - apply IH, d_call_reach, H.
  - apply IH, d_dirty_reach, H.
  - apply IH, d_fan_reach, H.
Qed.

(* every state the executable driver (run_case) passes through is a state the theorems cover *)
Lemma loop_reach v scripts fuel : forall ops d, reach v (core d) -> reach v (core (loop v scripts fuel ops d)).
Proof.
  induction fuel as [|fuel IH]; intros ops d H; cbn [loop]; [exact H|].
  destruct (skip_invalid d ops) as [|o ops1] eqn:E.
  - destruct (fresh d); [destruct (gated d); [exact H|]|].
    + apply IH, d_flush_reach, H.
    + apply IH, d_go_reach, H.
  - destruct o.
    + destruct (d_group v d (OCall thread fn gen inst pos kw :: ops1)) as [d' ops2] eqn:Eg.
      apply IH, d_go_reach. replace d' with (fst (d_group v d (OCall thread fn gen inst pos kw :: ops1))) by (rewrite Eg; reflexivity).
      apply d_group_reach, H.
    + destruct (d_group v d (ODirty thread fn gen inst pos kw :: ops1)) as [d' ops2] eqn:Eg.
      apply IH, d_go_reach. replace d' with (fst (d_group v d (ODirty thread fn gen inst pos kw :: ops1))) by (rewrite Eg; reflexivity).
      apply d_group_reach, H.
    + destruct (d_group v d (OGo :: ops1)) as [d' ops2] eqn:Eg.
      apply IH, d_go_reach. replace d' with (fst (d_group v d (OGo :: ops1))) by (rewrite Eg; reflexivity).
      apply d_group_reach, H.
    + apply IH, d_flush_reach, H.
    + destruct (d_group v d (OFan thread fn gen inst sp lo n :: ops1)) as [d' ops2] eqn:Eg.
      apply IH, d_go_reach. replace d' with (fst (d_group v d (OFan thread fn gen inst sp lo n :: ops1))) by (rewrite Eg; reflexivity).
      apply d_group_reach, H.
Qed.

Lemma run_case_reach v scripts ops :
  reach v (core (loop v scripts (fuel_for scripts ops) ops d_init)).
Proof. apply loop_reach. constructor. Qed.

(* ================================================================ frame: what other keys do *)

(* an action that concerns other keys than k: a call / dirty() with another key, the completion of a
   task created for another key; starting and suspending bodies never touch the registry *)
Definition off_key (v : variant) (st : state) (k : key) (a : action) : Prop :=
  match a with
  | ACall c | ADirty c => key_of v c <> Some k
  | AFinish t _ => forall x, nth_error (pool st) t = Some x -> tkey x <> k
  | _ => True
  end.

Lemma callback_other v k' t m k : k' <> k -> find k (callback v k' t m) = find k m.
Proof.
  intros Hn. unfold callback.
  destruct v; try (apply find_remove_other; exact Hn);
    (destruct (find k' m) as [u|]; [destruct (Nat.eqb u t); [apply find_remove_other; exact Hn|reflexivity]|reflexivity]).
Qed.

(* every variant: the entry of k (present or absent) is not changed by actions on other keys *)
Lemma frame_step v st k a : off_key v st k a -> find k (reg (fst (micro v st a))) = find k (reg st).
Proof.
  intros Hh. destruct a as [c|c|u|u|u o]; unfold micro.
  - cbn in Hh. destruct (key_of v c) as [k'|]; [|reflexivity].
    destruct (find k' (reg st)) as [w|] eqn:Ef.
    + destruct (is_running st w); [|reflexivity]. destruct (bind_of c); reflexivity.
    + destruct (bind_of c); [|reflexivity]. cbn.
      destruct (key_eq_dec k k') as [->|]; [congruence|reflexivity].
  - cbn in Hh. destruct (key_of v c) as [k'|]; [|reflexivity]. cbn.
    apply find_remove_other. congruence.
  - unfold status_of. destruct (nth_error (pool st) u) as [y|]; [|reflexivity]. cbn.
    destruct (tstatus y); reflexivity.
  - unfold status_of. destruct (nth_error (pool st) u) as [y|]; [|reflexivity]. cbn.
    destruct (tstatus y); reflexivity.
  - cbn in Hh. destruct (nth_error (pool st) u) as [y|]; [|reflexivity].
    destruct (tstatus y); try reflexivity. cbn. destruct (tcb y); [|reflexivity].
    apply callback_other. exact (Hh y eq_refl).
Qed.

Fixpoint all_off_key (v : variant) (st : state) (k : key) (acts : list action) : Prop :=
  match acts with
  | [] => True
  | a :: r => off_key v st k a /\ all_off_key v (fst (micro v st a)) k r
  end.

Lemma frame_run v acts : forall st k,
  all_off_key v st k acts -> find k (reg (fst (run_micro v st acts))) = find k (reg st).
Proof.
  induction acts as [|a acts IH]; intros st k H; [reflexivity|].
  destruct H as [Ha Hr]. rewrite fst_run_micro_cons, (IH _ _ Hr). apply frame_step, Ha.
Qed.

(* registering other keys - any number of them - never changes the task a key maps to *)
Lemma frame_calls v cs : forall st k,
  Forall (fun c => key_of v c <> Some k) cs ->
  find k (reg (fst (run_micro v st (map ACall cs)))) = find k (reg st).
Proof.
  induction cs as [|c cs IH]; intros st k H; [reflexivity|].
  inversion H as [|? ? Hc Hcs]; subst. cbn [map]. rewrite fst_run_micro_cons, (IH _ _ Hcs).
  apply frame_step. exact Hc.
Qed.

(* calls start no body: a task that is not running is not running afterwards *)
Lemma call_keeps_not_running v st c t :
  is_running st t = false -> is_running (fst (micro v st (ACall c))) t = false.
Proof.
  intros H. unfold micro.
  assert (Happ : forall x, tstatus x = Created -> is_running (mkSt (reg st) (pool st ++ [x])) t = false).
  { intros x Hx. unfold is_running, status_of in *. cbn [pool].
    destruct (nth_error (pool st ++ [x]) t) as [y|] eqn:Ey; [|reflexivity].
    apply nth_app_inv in Ey. destruct Ey as [Ey|[_ ->]].
    - rewrite Ey in H. exact H.
    - cbn. rewrite Hx. reflexivity. }
  destruct (key_of v c) as [k|]; [|exact H].
  destruct (find k (reg st)) as [u|].
  - destruct (is_running st u); [|exact H]. destruct (bind_of c); [|exact H]. cbn [fst]. apply (Happ (new_task k false)). reflexivity.
  - destruct (bind_of c); [|exact H]. cbn [fst].
    unfold is_running, status_of in *. cbn [pool].
    destruct (nth_error (pool st ++ [new_task k true]) t) as [y|] eqn:Ey; [|reflexivity].
    apply nth_app_inv in Ey. destruct Ey as [Ey|[_ ->]]; [rewrite Ey in H; exact H|reflexivity].
Qed.

Lemma calls_keep_not_running v cs : forall st t,
  is_running st t = false -> is_running (fst (run_micro v st (map ACall cs))) t = false.
Proof.
  induction cs as [|c cs IH]; intros st t H; [exact H|].
  cbn [map]. rewrite fst_run_micro_cons. apply IH, call_keeps_not_running, H.
Qed.

(* sharing does not depend on how many other keys are registered: whatever calls with other keys
   happen in between (any number, every variant), the next call for k still returns t, creating nothing *)
Lemma shared_whatever_else_is_registered v cs st c k t :
  key_of v c = Some k -> find k (reg st) = Some t -> is_running st t = false ->
  Forall (fun c' => key_of v c' <> Some k) cs ->
  let st' := fst (run_micro v st (map ACall cs)) in
  find k (reg st') = Some t /\ micro v st' (ACall c) = (st', MTask t false).
Proof.
  intros Hk Hf Hr Hcs st'.
  assert (Hf' : find k (reg st') = Some t) by (unfold st'; rewrite frame_calls; assumption).
  split; [exact Hf'|]. apply (call_shares v st' c k t Hk Hf'). apply calls_keep_not_running, Hr.
Qed.

Lemma fan_calls_forall (P : callspec -> Prop) th fn gen inst sp lo n :
  (forall i, (i < Z.to_nat n)%nat -> P (fan_call th fn gen inst sp lo i)) ->
  Forall P (fan_calls th fn gen inst sp lo n).
Proof.
  intros H. apply Forall_forall. intros c Hc. unfold fan_calls in Hc. apply in_map_iff in Hc.
  destruct Hc as (i & <- & Hi). apply in_seq in Hi. apply H. lia.
Qed.

(* the same for the compact fan-out op of the driver, for every size n *)
Lemma shared_after_fan v d ctx th fn gen inst sp lo n c k t :
  key_of v c = Some k -> find k (reg (core d)) = Some t -> is_running (core d) t = false ->
  (forall i, (i < Z.to_nat n)%nat -> key_of v (fan_call th fn gen inst sp lo i) <> Some k) ->
  let st' := core (d_fan v d ctx th fn gen inst sp lo n) in
  find k (reg st') = Some t /\ micro v st' (ACall c) = (st', MTask t false).
Proof.
  intros Hk Hf Hr Hn. cbv zeta. rewrite fan_is_calls.
  apply shared_whatever_else_is_registered; try assumption.
  apply fan_calls_forall. exact Hn.
Qed.

Lemma fan_call_components th fn gen inst sp lo i :
  cthread (fan_call th fn gen inst sp lo i) = th /\ cfn (fan_call th fn gen inst sp lo i) = fn /\
  cgen (fan_call th fn gen inst sp lo i) = gen /\ cinst (fan_call th fn gen inst sp lo i) = inst.
Proof. unfold fan_call. destruct (Z.eqb sp 1); repeat split; reflexivity. Qed.

Lemma example_fan :
  let c := mkCall 0 0 0 0 [AInt 1] [] in
  let d := d_call Repaired d_init (-1) c in
  let d' := d_fan Repaired d (-1) 0 1 0 0 0 0 64 in
  length (reg (core d')) = 65%nat /\
  snd (micro Repaired (core d') (ACall (mkCall 0 0 0 0 [] [(N_A, AInt 1)]))) = MTask 0 false.
Proof. vm_compute. split; reflexivity. Qed.

(* ================================================================ combined statements used by props/C12.v *)

Lemma rerun_after_done_or_dirty st : reach Repaired st ->
  (forall c st' t, micro Repaired st (ACall c) = (st', MTask t false) ->
     exists x, nth_error (pool st) t = Some x /\ Some (tkey x) = key_of Repaired c /\
               tstatus x <> Done /\ tstatus x <> Running) /\
  (forall k t o, find k (reg st) = Some t -> is_running st t = true ->
     find k (reg (fst (micro Repaired st (AFinish t o)))) = None) /\
  (forall c k, key_of Repaired c = Some k -> find k (reg (fst (micro Repaired st (ADirty c)))) = None).
Proof.
  intros H. split; [|split].
  - intros c st' t. exact (call_returns_in_flight st c st' t H).
  - intros k t o. exact (finish_unregisters st k t o H).
  - intros c k. exact (dirty_unregisters Repaired st c k).
Qed.

Lemma keys_differ v c1 c2 k1 k2 :
  key_of v c1 = Some k1 -> key_of v c2 = Some k2 ->
  differ c1 c2 -> k1 <> k2.
Proof.
  intros H1 H2 [H|[H|[H|(F1 & F2 & H)]]].
  - exact (keys_differ_by_function_or_thread v c1 c2 k1 k2 H1 H2 (or_introl H)).
  - exact (keys_differ_by_function_or_thread v c1 c2 k1 k2 H1 H2 (or_intror (or_introl H))).
  - exact (keys_differ_by_function_or_thread v c1 c2 k1 k2 H1 H2 (or_intror (or_intror H))).
  - exact (keys_differ_by_instance v c1 c2 k1 k2 F1 F2 H H1 H2).
Qed.

(* T3 at the level of tasks: in any history, calls of different function objects (another def, or
   another execution of the same def: equal module and qualname), on different threads, or of a
   method on different instances never receive the same task *)
Lemma distinct_never_share st c1 s1 t1 b1 acts c2 t2 b2 :
  reach Repaired st ->
  micro Repaired st (ACall c1) = (s1, MTask t1 b1) ->
  snd (micro Repaired (fst (run_micro Repaired s1 acts)) (ACall c2)) = MTask t2 b2 ->
  differ c1 c2 -> t1 <> t2.
Proof.
  intros Hr H1 H2 Hd E. subst t2.
  pose proof (keys_disjoint _ _ _ _ _ _ _ _ Hr H1 H2) as Hk.
  destruct (key_of Repaired c1) as [k1|] eqn:E1.
  - symmetry in Hk. exact (keys_differ Repaired c1 c2 k1 k1 E1 Hk Hd eq_refl).
  - unfold micro in H1. rewrite E1 in H1. discriminate.
Qed.

(* ... and dirty() of one of them never unregisters the in-flight task of the other *)
Lemma dirty_of_other_keeps st c0 k t c :
  key_of Repaired c0 = Some k -> find k (reg st) = Some t -> differ c0 c ->
  find k (reg (fst (micro Repaired st (ADirty c)))) = Some t.
Proof.
  intros Hk Hf Hd. apply owner_preserved; [exact Hf|]. cbn. intros E.
  exact (keys_differ Repaired c0 c k k Hk E Hd eq_refl).
Qed.

(* two executions of the same def statement (f0 of generation 0 and of generation 1), equal
   arguments, same thread: separate tasks; dirty() of the second leaves the first shared *)
Lemma example_generations :
  let c1 := mkCall 0 0 0 0 [AInt 1] [] in
  let c2 := mkCall 0 0 1 0 [AInt 1] [] in
  differ c1 c2 /\
  snd (run_micro Repaired init [ACall c1; ACall c2; ADirty c2; ACall c1; ACall c2])
  = [MTask 0 true; MTask 1 true; MUnit; MTask 0 false; MTask 2 true].
Proof. split; [right; left; discriminate|vm_compute; reflexivity]. Qed.

Lemma body_once_one_outcome v st t x : reach v st -> nth_error (pool st) t = Some x ->
  ((tstarts x <= 1)%nat /\ (tstatus x <> Created -> tstarts x = 1%nat) /\ (tout x <> None <-> tstatus x = Done)) /\
  (forall a o, tout x = Some o -> nth_error (pool (fst (micro v st a))) t = Some x).
Proof.
  intros H Hx. split.
  - exact (body_runs_once v st t x H Hx).
  - intros a o. exact (outcome_stable v st a t x o H Hx).
Qed.

Lemma example_share :
  let c1 := mkCall 0 0 0 0 [AInt 1] [] in
  let c2 := mkCall 0 0 0 0 [] [(N_B, AInt 0); (N_A, AInt 1)] in
  snd (run_micro Repaired init [ACall c1; ARun 0; AGate 0; ACall c2; ARun 0; AFinish 0 (Ok (VInt 7)); ACall c1])
  = [MTask 0 true; MUnit; MUnit; MTask 0 false; MUnit; MUnit; MTask 1 true].
Proof. vm_compute. reflexivity. Qed.

(* ... in particular a fan-out over another function object, generation, thread or (method) instance *)
Lemma fan_of_other_callable_off_key v c k th fn gen inst sp lo :
  key_of v c = Some k ->
  (cfn c <> fn \/ cgen c <> gen \/ cthread c <> th \/ (cfn c = 4 /\ fn = 4 /\ cinst c <> inst)) ->
  forall i : nat, key_of v (fan_call th fn gen inst sp lo i) <> Some k.
Proof.
  intros Hk Hd i E.
  destruct (fan_call_components th fn gen inst sp lo i) as (T & F & G & I).
  apply (keys_differ v c (fan_call th fn gen inst sp lo i) k k Hk E); [|reflexivity].
  unfold differ. rewrite T, F, G, I. exact Hd.
Qed.

(* the keys of one fan-out are pairwise distinct whenever they exist: n calls register n keys *)
Definition fan_call_at (th fn gen inst sp x : Z) : callspec :=
  if Z.eqb sp 1 then mkCall th fn gen inst [] [(1, AInt x)] else mkCall th fn gen inst [AInt x] [].

Lemma fan_call_at_keys_distinct v th fn gen inst sp x y kx ky :
  key_of v (fan_call_at th fn gen inst sp x) = Some kx ->
  key_of v (fan_call_at th fn gen inst sp y) = Some ky -> x <> y -> kx <> ky.
Proof.
  intros Hx Hy Hne E. subst ky.
  unfold key_of, full_pos, fan_call_at in Hx, Hy.
  destruct (Z.eqb fn 4) eqn:E4.
  - apply Z.eqb_eq in E4. subst fn.
    destruct (Z.eqb sp 1); cbn [cfn cgen cinst cpos ckw cthread] in Hx, Hy; destruct v;
      vm_compute in Hx, Hy; try discriminate; congruence.
  - pose proof E4 as E4b. apply Z.eqb_neq in E4. unfold sig_of in Hx, Hy.
    destruct (Z.eqb sp 1); cbn [cfn cgen cinst cpos ckw cthread] in Hx, Hy; rewrite E4b in Hx, Hy;
      destruct (Z.to_nat fn) as [|[|[|[|[|[|[|[|?]]]]]]]] eqn:En; try (exfalso; lia); destruct v;
        vm_compute in Hx, Hy; try discriminate; congruence.
Qed.

Lemma fan_keys_distinct v th fn gen inst sp lo i j ki kj :
  key_of v (fan_call th fn gen inst sp lo i) = Some ki ->
  key_of v (fan_call th fn gen inst sp lo j) = Some kj -> i <> j -> ki <> kj.
Proof.
  intros Hi Hj Hne. apply (fan_call_at_keys_distinct v th fn gen inst sp (lo + Z.of_nat i) (lo + Z.of_nat j)); try assumption. lia.
Qed.
