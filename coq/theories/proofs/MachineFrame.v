(* Frame lemmas for Machine.v: which helper touches which component of the state. *)
From Asynq Require Import Machine proofs.ProgProofs.

Lemma fold_left_pres {S X R} (f : S -> X -> S) (pr : S -> R) l :
  (forall s x, pr (f s x) = pr s) -> forall s, pr (fold_left f l s) = pr s.
Proof. intros H. induction l as [|x l IH]; intros s; simpl; [reflexivity|]. rewrite IH. apply H. Qed.

Lemma fold_left_pair_pres {S X E R} (f : S * E -> X -> S * E) (pr : S -> R) l :
  (forall a x, pr (fst (f a x)) = pr (fst a)) -> forall a, pr (fst (fold_left f l a)) = pr (fst a).
Proof. intros H. induction l as [|x l IH]; intros a; simpl; [reflexivity|]. rewrite IH. apply H. Qed.

(* the "scheduler registers" that only the control transitions themselves write *)
Definition regs (s : st) : list fid * option fid := (tasks s, active s).
Arguments regs : simpl never.

Ltac t_regs :=
  repeat match goal with
         | |- context [match ?x with _ => _ end] => destruct x eqn:?
         | |- context [if ?x then _ else _] => destruct x eqn:?
         end; try reflexivity.

Lemma regs_put h f s : regs (put h f s) = regs s. Proof. reflexivity. Qed.
Lemma regs_set_task t tk s : regs (set_task t tk s) = regs s.
Proof. unfold set_task. destruct (get t s); reflexivity. Qed.
Lemma regs_emit e s : regs (emit e s) = regs s. Proof. reflexivity. Qed.
Lemma regs_put_batch k b s : regs (put_batch k b s) = regs s. Proof. reflexivity. Qed.
Lemma regs_var_set v x s : regs (var_set v x s) = regs s. Proof. reflexivity. Qed.
Lemma regs_ci_put k c s : regs (ci_put k c s) = regs s. Proof. reflexivity. Qed.
Lemma regs_with_heap s h : regs (with_heap s h) = regs s. Proof. reflexivity. Qed.
Lemma regs_with_batches s h : regs (with_batches s h) = regs s. Proof. reflexivity. Qed.
Lemma regs_with_cur s h : regs (with_cur s h) = regs s. Proof. reflexivity. Qed.
Lemma regs_with_sb s h : regs (with_sb s h) = regs s. Proof. reflexivity. Qed.
Lemma regs_with_vars s h : regs (with_vars s h) = regs s. Proof. reflexivity. Qed.
Lemma regs_with_cis s h : regs (with_cis s h) = regs s. Proof. reflexivity. Qed.
Lemma regs_with_oracle s h : regs (with_oracle s h) = regs s. Proof. reflexivity. Qed.
Lemma regs_with_top_next s h : regs (with_top_next s h) = regs s. Proof. reflexivity. Qed.
#[export] Hint Rewrite regs_put regs_set_task regs_emit regs_put_batch regs_var_set regs_ci_put regs_with_heap
  regs_with_batches regs_with_cur regs_with_sb regs_with_vars regs_with_cis regs_with_oracle regs_with_top_next : regs.
Ltac rr := autorewrite with regs; try reflexivity.

(* the end of wait_for only touches the set of scheduled batches *)
Lemma drop_sb_cases s : drop_sb s = with_sb s [] \/ drop_sb s = s.
Proof. unfold drop_sb. destruct (tasks s); auto. Qed.
Lemma regs_drop_sb s : regs (drop_sb s) = regs s.
Proof. destruct (drop_sb_cases s) as [E|E]; rewrite E; reflexivity. Qed.
Lemma heap_drop_sb s : heap (drop_sb s) = heap s.
Proof. destruct (drop_sb_cases s) as [E|E]; rewrite E; reflexivity. Qed.
Lemma batches_drop_sb s : batches (drop_sb s) = batches s.
Proof. destruct (drop_sb_cases s) as [E|E]; rewrite E; reflexivity. Qed.
Lemma top_next_drop_sb s : top_next (drop_sb s) = top_next s.
Proof. destruct (drop_sb_cases s) as [E|E]; rewrite E; reflexivity. Qed.
Lemma trace_drop_sb s : trace (drop_sb s) = trace s.
Proof. destruct (drop_sb_cases s) as [E|E]; rewrite E; reflexivity. Qed.
Lemma tasks_drop_sb s : tasks (drop_sb s) = tasks s.
Proof. destruct (drop_sb_cases s) as [E|E]; rewrite E; reflexivity. Qed.
Lemma active_drop_sb s : active (drop_sb s) = active s.
Proof. destruct (drop_sb_cases s) as [E|E]; rewrite E; reflexivity. Qed.
Lemma vars_drop_sb s : vars (drop_sb s) = vars s.
Proof. destruct (drop_sb_cases s) as [E|E]; rewrite E; reflexivity. Qed.
Lemma cis_drop_sb s : cis (drop_sb s) = cis s.
Proof. destruct (drop_sb_cases s) as [E|E]; rewrite E; reflexivity. Qed.
Lemma cur_drop_sb s : cur (drop_sb s) = cur s.
Proof. destruct (drop_sb_cases s) as [E|E]; rewrite E; reflexivity. Qed.
Lemma get_drop_sb h s : get h (drop_sb s) = get h s.
Proof. unfold get. rewrite heap_drop_sb. reflexivity. Qed.
Lemma computed_drop_sb h s : computed h (drop_sb s) = computed h s.
Proof. unfold computed. rewrite get_drop_sb. reflexivity. Qed.
Lemma drop_sb_empty s : tasks s = [] -> sb (drop_sb s) = [].
Proof. intros H. unfold drop_sb. rewrite H. reflexivity. Qed.
Lemma sb_drop_sb_incl s k : In k (sb (drop_sb s)) -> In k (sb s).
Proof. destruct (drop_sb_cases s) as [E|E]; rewrite E; [intros []|auto]. Qed.

Lemma regs_alloc p s : regs (snd (alloc p s)) = regs s.
Proof. reflexivity. Qed.

Lemma regs_create p f s : regs (snd (create p f s)) = regs s.
Proof.
  unfold create. pose proof (regs_alloc p s) as H. destruct (alloc p s) as [h s1]. cbn [snd] in H.
  destruct f; cbn [snd]; rr; exact H.
Qed.

Lemma regs_inst p y : forall s, regs (snd (inst p y s)) = regs s.
Proof.
  induction y as [| a | l IH | l IH | l IH] using ystruct_ind2; intros s.
  - reflexivity.
  - destruct a as [f|h|]; simpl; try reflexivity.
    pose proof (regs_create p f s) as H. destruct (create p f s). exact H.
  - simpl.
    match goal with |- context [(?g l s)] => set (go := g) end.
    assert (H : forall s, regs (snd (go l s)) = regs s).
    { clear s. induction IH as [|x l Hx Hl IHl]; intros s; [reflexivity|]. simpl.
      specialize (Hx s). destruct (inst p x s) as [x' s1]. cbn [snd] in Hx.
      specialize (IHl s1). destruct (go l s1) as [l'' s2]. cbn [snd] in *. congruence. }
    specialize (H s). destruct (go l s). exact H.
  - simpl.
    match goal with |- context [(?g l s)] => set (go := g) end.
    assert (H : forall s, regs (snd (go l s)) = regs s).
    { clear s. induction IH as [|x l Hx Hl IHl]; intros s; [reflexivity|]. simpl.
      specialize (Hx s). destruct (inst p x s) as [x' s1]. cbn [snd] in Hx.
      specialize (IHl s1). destruct (go l s1) as [l'' s2]. cbn [snd] in *. congruence. }
    specialize (H s). destruct (go l s). exact H.
  - simpl.
    match goal with |- context [(?g l s)] => set (go := g) end.
    assert (H : forall s, regs (snd (go l s)) = regs s).
    { clear s. induction IH as [|[k x] l Hx Hl IHl]; intros s; [reflexivity|]. simpl. simpl in Hx.
      specialize (Hx s). destruct (inst p x s) as [x' s1]. cbn [snd] in Hx.
      specialize (IHl s1). destruct (go l s1) as [l'' s2]. cbn [snd] in *. congruence. }
    specialize (H s). destruct (go l s). exact H.
Qed.

Lemma regs_enter_ctx t c s : regs (enter_ctx t c s) = regs s.
Proof.
  unfold enter_ctx. destruct (get_task t s); destruct c; rr.
Qed.

Lemma regs_pause_plain t c s : regs (pause_plain t c s) = regs s.
Proof. destruct c; unfold pause_plain; rr. Qed.

Lemma regs_exit_ctx t c s : regs (exit_ctx t c s) = regs s.
Proof.
  unfold exit_ctx. destruct (get_task t s) as [tk|]; [destruct (tk_cact tk)|]; rewrite ?regs_pause_plain; rr.
Qed.

(* leaving a with-block in a task whose contexts are active: leave_context, then pause() *)
Lemma exit_ctx_active t c s out tk : get t s = Some (mkFut out (KTask tk)) -> tk_cact tk = true ->
  exit_ctx t c s = pause_plain t c (set_task t (tk_with_ctxs tk (remove_ctx c (tk_ctxs tk)) (tk_cact tk)) s).
Proof. intros Hg Hc. unfold exit_ctx, get_task. rewrite Hg. destruct (tk_cact tk); [reflexivity|discriminate]. Qed.

Lemma regs_complete_task t o s : regs (complete_task t o s) = regs s.
Proof.
  unfold complete_task. destruct (get_task t s) as [tk|]; [|reflexivity].
  assert (H : regs (match tk_gen tk with
                    | Some _ => fold_left (fun s c => exit_ctx t c s) (rev (tk_ctxs tk)) s
                    | None => s end) = regs s).
  { destruct (tk_gen tk); [|reflexivity]. apply fold_left_pres. intros. apply regs_exit_ctx. }
  destruct (get_task t _); [|exact H]. rr. exact H.
Qed.

Lemma regs_accept_error t e s : regs (accept_error t e s) = regs s.
Proof. unfold accept_error. destruct (computed t s); [reflexivity|apply regs_complete_task]. Qed.

Lemma regs_resume1 t c s : regs (fst (resume1 t c s)) = regs s.
Proof. unfold resume1. destruct c as [cid f|cid|cid var v]; [destruct f| |]; cbn [fst]; t_regs; cbn [fst]; rr. Qed.
Lemma regs_pause1 t c s : regs (fst (pause1 t c s)) = regs s.
Proof. unfold pause1. destruct c as [cid f|cid|cid var v]; [destruct f| |]; cbn [fst]; t_regs; cbn [fst]; rr. Qed.

Lemma regs_resume_contexts t s : regs (resume_contexts t s) = regs s.
Proof.
  unfold resume_contexts. destruct (get_task t s) as [tk|]; [|reflexivity].
  destruct (tk_cact tk); [reflexivity|].
  match goal with |- context [fold_left ?f ?l ?a] => pose proof (fold_left_pair_pres f regs l) as H; specialize (H) end.
  match goal with |- context [fold_left ?f ?l ?a] =>
    assert (H2 : regs (fst (fold_left f l a)) = regs s) end.
  { rewrite H; [cbn [fst]; apply regs_set_task|]. intros [s0 e0] c. cbn [fst].
    pose proof (regs_resume1 t c s0) as R. destruct (resume1 t c s0). exact R. }
  match goal with |- context [fold_left ?f ?l ?a] => destruct (fold_left f l a) as [s1 [e|]] end;
    cbn [fst] in H2; rewrite ?regs_accept_error; exact H2.
Qed.

Lemma regs_pause_contexts t s : regs (pause_contexts t s) = regs s.
Proof.
  unfold pause_contexts. destruct (get_task t s) as [tk|]; [|reflexivity].
  destruct (negb (tk_cact tk)); [reflexivity|].
  match goal with |- context [fold_left ?f ?l ?a] => pose proof (fold_left_pair_pres f regs l) as H end.
  match goal with |- context [fold_left ?f ?l ?a] =>
    assert (H2 : regs (fst (fold_left f l a)) = regs s) end.
  { rewrite H; [cbn [fst]; apply regs_set_task|]. intros [s0 e0] c. cbn [fst].
    pose proof (regs_pause1 t c s0) as R. destruct (pause1 t c s0). exact R. }
  match goal with |- context [fold_left ?f ?l ?a] => destruct (fold_left f l a) as [s1 [e|]] end;
    cbn [fst] in H2; rewrite ?regs_accept_error; exact H2.
Qed.

Lemma regs_complete_item h o s : regs (complete_item h o s) = regs s.
Proof. unfold complete_item. destruct (get h s) as [f|]; [destruct (f_out f)|]; rr. Qed.

Lemma regs_flush_body items : forall i ra s, regs (fst (flush_body items i ra s)) = regs s.
Proof.
  induction items as [|h rest IH]; intros i ra s; simpl.
  - destruct ra as [[k e]|]; reflexivity.
  - destruct ra as [[k e]|].
    + destruct (Z.eqb i k); [reflexivity|]. rewrite IH.
      destruct (get h s) as [[o [ | kind idx key [v|e'|] | | ]]|]; rewrite ?regs_complete_item; reflexivity.
    + rewrite IH.
      destruct (get h s) as [[o [ | kind idx key [v|e'|] | | ]]|]; rewrite ?regs_complete_item; reflexivity.
Qed.

Lemma regs_flush_batch P k s : regs (flush_batch P k s) = regs s.
Proof.
  unfold flush_batch. destruct (b_done (get_batch k s)); [reflexivity|].
  match goal with |- context [flush_body ?a ?b ?c ?d] =>
    pose proof (regs_flush_body a b c d) as H; destruct (flush_body a b c d) as [s2 err] end.
  cbn [fst] in H. rewrite regs_put_batch.
  rewrite (fold_left_pres (fun s h => complete_item h _ s) regs); [|intros; apply regs_complete_item].
  rewrite H. rr. destruct (Z.eqb _ _); rr.
Qed.

Lemma regs_select P s : regs (snd (select P s)) = regs s.
Proof.
  unfold select. destruct (filter _ (sb s)); [reflexivity|].
  cbn [oracle with_sb]. destruct (oracle s); [reflexivity|].
  match goal with |- context [if ?b then _ else _] => destruct b end; cbn [snd]; rr.
Qed.

Lemma regs_continue_with_batch P s : regs (continue_with_batch P s) = regs s.
Proof.
  unfold continue_with_batch. pose proof (regs_select P s) as H. destruct (select P s) as [[k|] s1]; cbn [snd] in H.
  - rewrite regs_emit, regs_flush_batch, regs_emit, regs_with_sb. exact H.
  - exact H.
Qed.

Lemma regs_schedule_batch k s : regs (schedule_batch k s) = regs s.
Proof. unfold schedule_batch. destruct (b_done _); [reflexivity|]. destruct (existsb _ _); rr. Qed.

(* ------------------------------------------------------------------ generic projections *)
(* Any observation of the state that ignores the heap, the trace, the scoped variables, the context
   instances and the id counter is invariant under all context / completion helpers. *)
Section Stable1.
  Context {R : Type} (pr : st -> R).
  Hypothesis pr_heap : forall s h, pr (with_heap s h) = pr s.
  Hypothesis pr_emit : forall s e, pr (emit e s) = pr s.
  Hypothesis pr_vars : forall s v, pr (with_vars s v) = pr s.
  Hypothesis pr_cis : forall s c, pr (with_cis s c) = pr s.
  Hypothesis pr_top : forall s n, pr (with_top_next s n) = pr s.

  Lemma pr_put h f s : pr (put h f s) = pr s. Proof. apply pr_heap. Qed.
  Lemma pr_set_task t tk s : pr (set_task t tk s) = pr s.
  Proof. unfold set_task. destruct (get t s); [apply pr_put|reflexivity]. Qed.
  Lemma pr_var_set v x s : pr (var_set v x s) = pr s. Proof. apply pr_vars. Qed.
  Lemma pr_ci_put k c s : pr (ci_put k c s) = pr s. Proof. apply pr_cis. Qed.

  Ltac prr := repeat first [rewrite pr_emit | rewrite pr_put | rewrite pr_set_task | rewrite pr_var_set
                            | rewrite pr_ci_put | rewrite pr_heap | rewrite pr_vars | rewrite pr_cis | rewrite pr_top];
              try reflexivity.

  Lemma pr_alloc p s : pr (snd (alloc p s)) = pr s. Proof. unfold alloc. cbn [snd]. prr. Qed.

  Lemma pr_enter_ctx t c s : pr (enter_ctx t c s) = pr s.
  Proof. unfold enter_ctx. destruct (get_task t s); destruct c; prr. Qed.
  Lemma pr_pause_plain t c s : pr (pause_plain t c s) = pr s.
  Proof. destruct c; unfold pause_plain; prr. Qed.
  Lemma pr_exit_ctx t c s : pr (exit_ctx t c s) = pr s.
  Proof. unfold exit_ctx. destruct (get_task t s) as [tk|]; [destruct (tk_cact tk)|]; rewrite ?pr_pause_plain; prr. Qed.

  Lemma pr_complete_task t o s : pr (complete_task t o s) = pr s.
  Proof.
    unfold complete_task. destruct (get_task t s) as [tk|]; [|reflexivity].
    assert (H : pr (match tk_gen tk with
                    | Some _ => fold_left (fun s c => exit_ctx t c s) (rev (tk_ctxs tk)) s
                    | None => s end) = pr s).
    { destruct (tk_gen tk); [|reflexivity]. apply fold_left_pres. intros. apply pr_exit_ctx. }
    destruct (get_task t _); [|exact H]. prr. exact H.
  Qed.

  Lemma pr_accept_error t e s : pr (accept_error t e s) = pr s.
  Proof. unfold accept_error. destruct (computed t s); [reflexivity|apply pr_complete_task]. Qed.

  Lemma pr_resume1 t c s : pr (fst (resume1 t c s)) = pr s.
  Proof. unfold resume1. destruct c as [cid f|cid|cid var v]; [destruct f| |]; cbn [fst]; t_regs; cbn [fst]; prr. Qed.
  Lemma pr_pause1 t c s : pr (fst (pause1 t c s)) = pr s.
  Proof. unfold pause1. destruct c as [cid f|cid|cid var v]; [destruct f| |]; cbn [fst]; t_regs; cbn [fst]; prr. Qed.

  Lemma pr_resume_contexts t s : pr (resume_contexts t s) = pr s.
  Proof.
    unfold resume_contexts. destruct (get_task t s) as [tk|]; [|reflexivity].
    destruct (tk_cact tk); [reflexivity|].
    match goal with |- context [fold_left ?f ?l ?a] => pose proof (fold_left_pair_pres f pr l) as H end.
    match goal with |- context [fold_left ?f ?l ?a] =>
      assert (H2 : pr (fst (fold_left f l a)) = pr s) end.
    { rewrite H; [cbn [fst]; apply pr_set_task|]. intros [s0 e0] c. cbn [fst].
      pose proof (pr_resume1 t c s0) as Rr. destruct (resume1 t c s0). exact Rr. }
    match goal with |- context [fold_left ?f ?l ?a] => destruct (fold_left f l a) as [s1 [e|]] end;
      cbn [fst] in H2; rewrite ?pr_accept_error; exact H2.
  Qed.

  Lemma pr_pause_contexts t s : pr (pause_contexts t s) = pr s.
  Proof.
    unfold pause_contexts. destruct (get_task t s) as [tk|]; [|reflexivity].
    destruct (negb (tk_cact tk)); [reflexivity|].
    match goal with |- context [fold_left ?f ?l ?a] => pose proof (fold_left_pair_pres f pr l) as H end.
    match goal with |- context [fold_left ?f ?l ?a] =>
      assert (H2 : pr (fst (fold_left f l a)) = pr s) end.
    { rewrite H; [cbn [fst]; apply pr_set_task|]. intros [s0 e0] c. cbn [fst].
      pose proof (pr_pause1 t c s0) as Rr. destruct (pause1 t c s0). exact Rr. }
    match goal with |- context [fold_left ?f ?l ?a] => destruct (fold_left f l a) as [s1 [e|]] end;
      cbn [fst] in H2; rewrite ?pr_accept_error; exact H2.
  Qed.

  Lemma pr_complete_item h o s : pr (complete_item h o s) = pr s.
  Proof. unfold complete_item. destruct (get h s) as [f|]; [destruct (f_out f)|]; prr. Qed.

  Lemma pr_flush_body items : forall i ra s, pr (fst (flush_body items i ra s)) = pr s.
  Proof.
    induction items as [|h rest IH]; intros i ra s; simpl.
    - destruct ra as [[k e]|]; reflexivity.
    - destruct ra as [[k e]|].
      + destruct (Z.eqb i k); [reflexivity|]. rewrite IH.
        destruct (get h s) as [[o [ | kind idx key [v|e'|] | | ]]|]; rewrite ?pr_complete_item; reflexivity.
      + rewrite IH.
        destruct (get h s) as [[o [ | kind idx key [v|e'|] | | ]]|]; rewrite ?pr_complete_item; reflexivity.
  Qed.
End Stable1.
