(* Proofs about the Gen model (C17). *)
From Asynq Require Import Base Gen.

(* ------------------------------------------------------------------ vocabulary *)
Definition pending (s : gstate) : bool :=
  match last_task s with LPending _ => true | _ => false end.

(* invariant of every reachable state: a stopped generator has nothing left to run and no
   uncomputed task *)
Definition wf (s : gstate) : Prop :=
  is_stopped s = true -> rest s = [] /\ pending s = false.

Definition clean_step (st : step) : bool :=
  match st with GAwait (TErr _) => false | GRaise _ => false | _ => true end.
(* no failing await, no raise: every await succeeds *)
Definition clean (b : list step) : Prop := forallb clean_step b = true.

(* the sequential reference: the Values of a body in program order *)
Fixpoint values (b : list step) : list val :=
  match b with
  | [] => []
  | GValue v :: b' => v :: values b'
  | _ :: b' => values b'
  end.

(* the shortest prefix of b that contains k Values (all of b when it has fewer) *)
Fixpoint needed (k : nat) (b : list step) : list step :=
  match b with
  | [] => []
  | st :: b' =>
    match k with
    | O => []
    | S k' => st :: needed (match st with GValue _ => k' | _ => k end) b'
    end
  end.

Fixpoint after_awaits (b : list step) : list step :=
  match b with GAwait _ :: b' => after_awaits b' | _ => b end.
Fixpoint n_awaits (b : list step) : nat :=
  match b with GAwait _ :: b' => S (n_awaits b') | _ => O end.

Lemma clean_cons st b : clean (st :: b) -> clean_step st = true /\ clean b.
Proof. unfold clean; cbn. intros H. apply andb_true_iff in H. exact H. Qed.

Lemma clean_after b : clean b -> clean (after_awaits b).
Proof.
  induction b as [|st b IH]; intros H; auto.
  destruct st; auto. cbn. apply clean_cons in H as [_ H]. auto.
Qed.

Lemma values_after b : values (after_awaits b) = values b.
Proof. induction b as [|st b IH]; auto. destruct st; auto. Qed.

Lemma split_awaits b : b = firstn (n_awaits b) b ++ after_awaits b.
Proof. induction b as [|st b IH]; auto. destruct st; auto. cbn. f_equal. exact IH. Qed.

Lemma length_after b : length b = (n_awaits b + length (after_awaits b))%nat.
Proof. induction b as [|st b IH]; auto. destruct st; auto. cbn. lia. Qed.

(* a clean body, after its leading awaits, is empty or starts with a Value *)
Lemma clean_after_shape b : clean b ->
  after_awaits b = [] \/ exists v tl, after_awaits b = GValue v :: tl.
Proof.
  induction b as [|st b IH]; intros H; auto.
  apply clean_cons in H as [H1 H2]. destruct st; cbn in *; eauto. discriminate.
Qed.

(* ------------------------------------------------------------------ send *)
(* advance guard: with an uncomputed last_task, send raises RuntimeError and changes nothing *)
Lemma advance_guard s first :
  last_task s = LPending first -> send s = (s, SRaise E_RUNTIME).
Proof. intros H. unfold send. rewrite H. reflexivity. Qed.

Lemma stopped_send s :
  is_stopped s = true -> pending s = false -> send s = (s, SRaise E_STOPITER).
Proof.
  unfold send, pending. intros H1 H2. destruct (last_task s); try discriminate; rewrite H1; reflexivity.
Qed.

Lemma stopped_next_value s :
  is_stopped s = true -> pending s = false -> next_value s = (s, NVStop).
Proof. intros H1 H2. unfold next_value. rewrite stopped_send; auto. Qed.

(* ------------------------------------------------------------------ the _send_inner loop *)
Lemma inner_loop_clean : forall b f p lg lt st yr,
  clean b -> (length b < f)%nat ->
  let r := inner_loop f (mkG b p lg lt st) yr in
  last_task (fst r) = lt /\ pulls (fst r) = (p + n_awaits b + 1)%nat /\
  match after_awaits b with
  | GValue v :: tl => snd r = TVal v /\ rest (fst r) = tl /\ is_stopped (fst r) = st
  | _ => snd r = TEnd /\ rest (fst r) = [] /\ is_stopped (fst r) = true
  end.
Proof.
  induction b as [|s0 b IH]; intros f p lg lt st yr Hc Hf; (destruct f as [|f]; [cbn in Hf; lia|]).
  - cbn. repeat split; auto; lia.
  - apply clean_cons in Hc as [H1 H2]. destruct s0 as [o|v|e]; cbn in H1; try discriminate.
    + destruct o as [v| |e]; try discriminate.
      * cbn in Hf. specialize (IH f (S p) (lg ++ [yr]) lt st (TVal v) H2 ltac:(lia)).
        cbn in *. destruct IH as (I1 & I2 & I3). repeat split; auto. lia.
      * cbn in Hf. specialize (IH f (S p) (lg ++ [yr]) lt st TEnd H2 ltac:(lia)).
        cbn in *. destruct IH as (I1 & I2 & I3). repeat split; auto. lia.
    + cbn. repeat split; auto; lia.
Qed.

(* ------------------------------------------------------------------ one iteration of `for task in gen: value = yield task` *)
Lemma next_value_clean s :
  clean (rest s) -> pending s = false -> is_stopped s = false ->
  let r := next_value s in
  pending (fst r) = false /\
  match rest s with
  | [] => snd r = NVStop /\ rest (fst r) = [] /\ is_stopped (fst r) = true /\ pulls (fst r) = S (pulls s)
  | _ =>
    pulls (fst r) = (pulls s + n_awaits (rest s) + 1)%nat /\
    match after_awaits (rest s) with
    | GValue v :: tl => snd r = NVItem (TVal v) /\ rest (fst r) = tl /\ is_stopped (fst r) = false
    | _ => snd r = NVItem TEnd /\ rest (fst r) = [] /\ is_stopped (fst r) = true
    end
  end.
Proof.
  destruct s as [b p lg lt st]. unfold pending. cbn [rest last_task is_stopped pulls].
  intros Hc Hp Hs. subst st.
  destruct b as [|s0 b].
  - unfold next_value, send. cbn. destruct lt; try discriminate; cbn; auto.
  - apply clean_cons in Hc as [H1 H2].
    destruct s0 as [o|v|e]; cbn in H1; try discriminate.
    + assert (Hsend : send (mkG (GAwait o :: b) p lg lt false) =
                      (mkG b (S p) (lg ++ [TVal VNone]) (LPending o) false, STask)).
      { unfold send. destruct lt; try discriminate; reflexivity. }
      unfold next_value. rewrite Hsend. unfold compute. cbn [last_task rest].
      destruct o as [v| |e]; try discriminate.
      * pose proof (inner_loop_clean b (S (length b)) (S p) (lg ++ [TVal VNone]) (LPending (TVal v)) false (TVal v) H2 ltac:(lia)) as H.
        cbn zeta in H. destruct (inner_loop _ _ _) as [s1 r1]. cbn [fst snd] in *.
        destruct H as (I1 & I2 & I3). cbn [n_awaits after_awaits].
        split; [reflexivity|]. split; [cbn; lia|].
        destruct (after_awaits b) as [|[o'|v'|e'] tl]; cbn; destruct I3 as (-> & J2 & J3); auto.
      * pose proof (inner_loop_clean b (S (length b)) (S p) (lg ++ [TVal VNone]) (LPending TEnd) false TEnd H2 ltac:(lia)) as H.
        cbn zeta in H. destruct (inner_loop _ _ _) as [s1 r1]. cbn [fst snd] in *.
        destruct H as (I1 & I2 & I3). cbn [n_awaits after_awaits].
        split; [reflexivity|]. split; [cbn; lia|].
        destruct (after_awaits b) as [|[o'|v'|e'] tl]; cbn; destruct I3 as (-> & J2 & J3); auto.
    + unfold next_value, send. destruct lt; try discriminate; cbn; repeat split; auto; lia.
Qed.

Lemma wf_stopped_nil s : rest s = [] -> pending s = false -> wf s.
Proof. intros H1 H2 _. auto. Qed.

Lemma wf_running s : is_stopped s = false -> wf s.
Proof. intros H1 H2. congruence. Qed.

(* ------------------------------------------------------------------ list_of_generator *)
Lemma list_loop_clean : forall f s data,
  wf s -> pending s = false -> clean (rest s) -> (length (rest s) + 2 <= f)%nat ->
  let r := list_loop f s data in
  snd r = LOk (data ++ map TVal (values (rest s))) /\
  rest (fst r) = [] /\ is_stopped (fst r) = true /\ pending (fst r) = false.
Proof.
  induction f as [|f IH]; intros s data Hwf Hp Hc Hf; [lia|].
  cbn [list_loop]. destruct (is_stopped s) eqn:Hs.
  - rewrite stopped_next_value by auto. destruct (Hwf Hs) as [Hr _]. rewrite Hr. cbn.
    rewrite app_nil_r. auto.
  - pose proof (next_value_clean s Hc Hp Hs) as H. cbn zeta in H.
    destruct (next_value s) as [s1 x]. cbn [fst snd] in H. destruct H as (Hp1 & H).
    destruct (rest s) as [|s0 b] eqn:Hr.
    + destruct H as (-> & H1 & H2 & H3). cbn. rewrite app_nil_r. auto.
    + destruct H as (Hpl & H).
      pose proof (values_after (s0 :: b)) as Hv. pose proof (length_after (s0 :: b)) as Hl.
      pose proof (clean_after _ Hc) as Hca.
      destruct (after_awaits (s0 :: b)) as [|[o|v|e] tl] eqn:Ha.
      * destruct H as (-> & H1 & H2).
        specialize (IH s1 data (wf_stopped_nil s1 H1 Hp1) Hp1). rewrite H1 in IH.
        specialize (IH eq_refl ltac:(cbn in *; lia)). cbn zeta in IH. cbn in IH.
        rewrite <- Hv. cbn [values map]. exact IH.
      * exfalso. destruct (clean_after_shape _ Hc) as [E|(v & tl' & E)]; rewrite Ha in E; discriminate.
      * destruct H as (-> & H1 & H2).
        specialize (IH s1 (data ++ [TVal v]) (wf_running s1 H2) Hp1). rewrite H1 in IH.
        apply clean_cons in Hca as [_ Hca].
        specialize (IH Hca ltac:(cbn in *; lia)). cbn zeta in IH.
        rewrite <- Hv. cbn [values map]. rewrite <- app_assoc in IH. exact IH.
      * exfalso. destruct (clean_after_shape _ Hc) as [E|(v & tl' & E)]; rewrite Ha in E; discriminate.
Qed.

Lemma list_all_values s :
  wf s -> pending s = false -> clean (rest s) ->
  let r := list_of_generator s in
  snd r = LOk (map TVal (values (rest s))) /\
  rest (fst r) = [] /\ is_stopped (fst r) = true /\ pending (fst r) = false.
Proof.
  intros Hwf Hp Hc. unfold list_of_generator, fuel_of.
  apply (list_loop_clean _ s [] Hwf Hp Hc). lia.
Qed.

(* ------------------------------------------------------------------ facts about `needed` *)
Lemma needed_0 b : needed 0 b = [].
Proof. destruct b; reflexivity. Qed.

Lemma length_firstn_awaits b : length (firstn (n_awaits b) b) = n_awaits b.
Proof. induction b as [|st b IH]; auto. destruct st; auto. cbn. f_equal. exact IH. Qed.

Lemma needed_value b k v tl :
  after_awaits b = GValue v :: tl ->
  needed (S k) b = firstn (n_awaits b) b ++ GValue v :: needed k tl.
Proof.
  induction b as [|st b IH]; intros H; [discriminate|].
  destruct st; cbn in *.
  - f_equal. auto.
  - inversion H; subst. reflexivity.
  - discriminate.
Qed.

Lemma needed_all_awaits b k : after_awaits b = [] -> needed (S k) b = b /\ n_awaits b = length b.
Proof.
  induction b as [|st b IH]; intros H; auto.
  destruct st; cbn in *; try discriminate. destruct (IH H) as [H1 H2]. split; congruence.
Qed.

Lemma needed_prefix : forall b k, exists tl, b = needed k b ++ tl.
Proof.
  induction b as [|st b IH]; intros k; [exists []; reflexivity|].
  destruct k; [exists (st :: b); reflexivity|]. cbn.
  destruct (IH (match st with GValue _ => k | _ => S k end)) as [tl E]. exists tl. cbn. f_equal. exact E.
Qed.

Lemma values_needed : forall b k, values (needed k b) = firstn k (values b).
Proof.
  induction b as [|st b IH]; intros k; [destruct k; reflexivity|].
  destruct k; [destruct st; reflexivity|]. destruct st; cbn; rewrite IH; reflexivity.
Qed.

(* minimality: when b has at least k >= 1 Values, needed k b ends with the k-th Value *)
Lemma needed_ends_with_value : forall b k,
  (S k <= length (values b))%nat ->
  exists p v, needed (S k) b = p ++ [GValue v] /\ length (values p) = k.
Proof.
  induction b as [|st b IH]; intros k H; [cbn in H; lia|].
  destruct st as [o|v|e]; cbn in H.
  - destruct (IH k H) as (p & v & E & L). exists (GAwait o :: p), v. cbn. rewrite E. auto.
  - destruct k.
    + exists [], v. cbn. rewrite needed_0. auto.
    + destruct (IH k ltac:(lia)) as (p & v' & E & L). exists (GValue v :: p), v'. cbn. rewrite E. cbn. auto.
  - destruct (IH k H) as (p & v & E & L). exists (GRaise e :: p), v. cbn. rewrite E. auto.
Qed.

(* ------------------------------------------------------------------ take_first *)
Lemma take_loop_stopped f s i n ret :
  is_stopped s = true -> pending s = false -> take_loop (S f) s i n ret = (s, LOk ret).
Proof. intros H1 H2. cbn [take_loop]. rewrite stopped_next_value; auto. Qed.

Lemma take_loop_clean : forall f s i n ret k,
  wf s -> pending s = false -> clean (rest s) -> (length (rest s) + 2 <= f)%nat ->
  n - i = Z.of_nat (S k) ->
  let r := take_loop f s i n ret in
  snd r = LOk (ret ++ map TVal (firstn (S k) (values (rest s)))) /\
  rest s = needed (S k) (rest s) ++ rest (fst r) /\
  (pulls (fst r) <= pulls s + length (needed (S k) (rest s)) + 1)%nat /\
  ((S k <= length (values (rest s)))%nat ->
     pulls (fst r) = (pulls s + length (needed (S k) (rest s)))%nat) /\
  wf (fst r) /\ pending (fst r) = false.
Proof.
  induction f as [|f IH]; intros s i n ret k Hwf Hp Hc Hf Hk; [lia|].
  destruct (is_stopped s) eqn:Hs.
  - rewrite take_loop_stopped by auto. destruct (Hwf Hs) as [Hr _]. rewrite Hr. cbn.
    rewrite app_nil_r. repeat split; auto; try lia.
  - cbn [take_loop].
    pose proof (next_value_clean s Hc Hp Hs) as H. cbn zeta in H.
    destruct (next_value s) as [s1 x]. cbn [fst snd] in H. destruct H as (Hp1 & H).
    destruct (rest s) as [|s0 b] eqn:Hr.
    + destruct H as (-> & H1 & H2 & H3). cbn. rewrite app_nil_r.
      repeat split; auto; try lia; try (apply wf_stopped_nil; auto).
    + destruct H as (Hpl & H).
      pose proof (values_after (s0 :: b)) as Hv. pose proof (length_after (s0 :: b)) as Hl.
      pose proof (clean_after _ Hc) as Hca. pose proof (split_awaits (s0 :: b)) as Hsp.
      destruct (after_awaits (s0 :: b)) as [|[o|v|e] tl] eqn:Ha.
      * destruct H as (-> & H1 & H2).
        destruct f as [|f]; [cbn in Hf; lia|].
        rewrite take_loop_stopped by auto. cbn [fst snd].
        destruct (needed_all_awaits _ k Ha) as [Hn Hna].
        rewrite Hn, H1, app_nil_r, <- Hv. cbn [values firstn map]. rewrite app_nil_r.
        repeat split; auto; try lia; try (apply wf_stopped_nil; auto);
          try (intros Hlen; exfalso; cbn in Hlen; lia).
      * exfalso. destruct (clean_after_shape _ Hc) as [E|(v & tl' & E)]; rewrite Ha in E; discriminate.
      * destruct H as (-> & H1 & H2).
        rewrite (needed_value _ k v tl Ha), <- Hv. cbn [values].
        assert (Hlenp : length (firstn (n_awaits (s0 :: b)) (s0 :: b) ++ GValue v :: needed k tl)
                        = (n_awaits (s0 :: b) + 1 + length (needed k tl))%nat).
        { rewrite app_length, length_firstn_awaits. cbn. lia. }
        rewrite Hlenp.
        destruct (i =? n - 1) eqn:Ei.
        -- apply Z.eqb_eq in Ei. assert (k = O) by lia. subst k.
           cbn [fst snd]. rewrite needed_0. cbn [firstn map length].
           repeat split; auto; try lia.
           ++ rewrite H1, <- app_assoc. cbn [app]. exact Hsp.
           ++ apply wf_running; auto.
        -- apply Z.eqb_neq in Ei. destruct k as [|k]; [lia|].
           apply clean_cons in Hca as [_ Hca].
           specialize (IH s1 (i + 1) n (ret ++ [TVal v]) k (wf_running s1 H2) Hp1).
           rewrite H1 in IH. specialize (IH Hca ltac:(cbn in *; lia) ltac:(lia)).
           cbn zeta in IH. destruct IH as (I1 & I2 & I3 & I4 & I5 & I6).
           refine (conj _ (conj _ (conj _ (conj _ (conj I5 I6))))).
           ++ rewrite I1. rewrite <- app_assoc. reflexivity.
           ++ rewrite <- app_assoc. cbn [app]. rewrite <- I2. exact Hsp.
           ++ lia.
           ++ intros Hlen. cbn in Hlen. rewrite I4 by lia. lia.
      * exfalso. destruct (clean_after_shape _ Hc) as [E|(v & tl' & E)]; rewrite Ha in E; discriminate.
Qed.

Lemma take_first_zero s n : n <= 0 -> take_first s n = (s, LOk []).
Proof. intros H. unfold take_first. destruct (n <=? 0) eqn:E; auto. apply Z.leb_gt in E. lia. Qed.

Lemma take_first_spec s n :
  wf s -> pending s = false -> clean (rest s) ->
  let r := take_first s n in
  let k := Z.to_nat n in
  snd r = LOk (map TVal (firstn k (values (rest s)))) /\
  rest s = needed k (rest s) ++ rest (fst r) /\
  (pulls (fst r) <= pulls s + length (needed k (rest s)) + 1)%nat /\
  ((k <= length (values (rest s)))%nat -> pulls (fst r) = (pulls s + length (needed k (rest s)))%nat) /\
  wf (fst r) /\ pending (fst r) = false.
Proof.
  intros Hwf Hp Hc. cbn zeta. unfold take_first. destruct (n <=? 0) eqn:E.
  - apply Z.leb_le in E. replace (Z.to_nat n) with O by lia. rewrite needed_0. cbn.
    refine (conj eq_refl (conj eq_refl (conj _ (conj _ (conj Hwf Hp))))); lia.
  - apply Z.leb_gt in E. destruct (Z.to_nat n) as [|k] eqn:Ek; [lia|].
    apply (take_loop_clean (fuel_of s) s 0 n [] k Hwf Hp Hc); unfold fuel_of; lia.
Qed.

Lemma values_app a b : values (a ++ b) = values a ++ values b.
Proof. induction a as [|st a IH]; auto. destruct st; cbn; rewrite IH; reflexivity. Qed.

Lemma clean_app_r a b : clean (a ++ b) -> clean b.
Proof. unfold clean. rewrite forallb_app. intros H. apply andb_true_iff in H. tauto. Qed.

(* what is left after take_first(gen, n) is exactly the rest of the Values: a later call continues *)
Lemma take_first_rest s n :
  wf s -> pending s = false -> clean (rest s) ->
  let s' := fst (take_first s n) in
  values (rest s') = skipn (Z.to_nat n) (values (rest s)) /\ clean (rest s') /\ wf s' /\ pending s' = false.
Proof.
  intros Hwf Hp Hc. destruct (take_first_spec s n Hwf Hp Hc) as (_ & H2 & _ & _ & H5 & H6).
  cbn zeta. split; [|split; [|split]]; auto.
  - pose proof (f_equal values H2) as Hv. rewrite values_app, values_needed in Hv.
    rewrite <- (firstn_skipn (Z.to_nat n) (values (rest s))) in Hv at 1.
    apply app_inv_head in Hv. auto.
  - rewrite H2 in Hc. apply clean_app_r in Hc. exact Hc.
Qed.

(* repeated take_first calls on the same generator return consecutive chunks *)
Fixpoint take_many (s : gstate) (ns : list Z) : list lres :=
  match ns with
  | [] => []
  | n :: ns' => let '(s1, r) := take_first s n in r :: take_many s1 ns'
  end.
Fixpoint chunks (ks : list nat) (l : list val) : list (list val) :=
  match ks with
  | [] => []
  | k :: ks' => firstn k l :: chunks ks' (skipn k l)
  end.

Lemma take_first_repeated : forall ns s,
  wf s -> pending s = false -> clean (rest s) ->
  take_many s ns = map (fun c => LOk (map TVal c)) (chunks (map Z.to_nat ns) (values (rest s))).
Proof.
  induction ns as [|n ns IH]; intros s Hwf Hp Hc; auto.
  cbn. destruct (take_first_spec s n Hwf Hp Hc) as (H1 & _).
  destruct (take_first_rest s n Hwf Hp Hc) as (R1 & R2 & R3 & R4).
  destruct (take_first s n) as [s1 r]. cbn [fst snd] in *. subst r. f_equal.
  rewrite IH by auto. rewrite R1. reflexivity.
Qed.

(* ------------------------------------------------------------------ facts for ALL bodies and states *)
Definition wfr (s : gstate) : Prop := is_stopped s = true -> rest s = [].

Lemma inner_loop_gen : forall f s yr,
  let r := inner_loop f s yr in
  (exists pre, rest s = pre ++ rest (fst r)) /\
  (forall v, snd r = TVal v -> In (GValue v) (rest s)) /\
  last_task (fst r) = last_task s /\
  (wfr s -> wfr (fst r)).
Proof.
  induction f as [|f IH]; intros s yr.
  - cbn. repeat split; auto; try discriminate. exists []; reflexivity.
  - destruct s as [b p lg lt st]. destruct b as [|[o|v|e] b]; cbn.
    + repeat split; auto; try discriminate. exists []; reflexivity.
    + destruct o as [v| |e].
      * specialize (IH (mkG b (S p) (lg ++ [yr]) lt st) (TVal v)). cbn zeta in IH.
        destruct IH as ((pre & I1) & I2 & I3 & I4). cbn in *.
        repeat split; auto.
        -- exists (GAwait (TVal v) :: pre). cbn. f_equal. exact I1.
        -- intros H. apply I4. intros Hs. specialize (H Hs). discriminate.
      * specialize (IH (mkG b (S p) (lg ++ [yr]) lt st) TEnd). cbn zeta in IH.
        destruct IH as ((pre & I1) & I2 & I3 & I4). cbn in *.
        repeat split; auto.
        -- exists (GAwait TEnd :: pre). cbn. f_equal. exact I1.
        -- intros H. apply I4. intros Hs. specialize (H Hs). discriminate.
      * cbn. repeat split; auto; try discriminate.
        -- exists [GAwait (TErr e)]. reflexivity.
        -- intros H Hs. specialize (H Hs). discriminate.
    + cbn. repeat split; auto.
      * exists [GValue v]. reflexivity.
      * intros v0 E. inversion E. auto.
      * intros H Hs. specialize (H Hs). discriminate.
    + cbn. repeat split; auto; try discriminate. exists (GRaise e :: b). rewrite app_nil_r. reflexivity.
Qed.

(* more fuel changes nothing: the bound S (length (rest s)) used by `compute` is never reached *)
Lemma inner_loop_fuel : forall f1 f2 s yr,
  (length (rest s) < f1)%nat -> (length (rest s) < f2)%nat ->
  inner_loop f1 s yr = inner_loop f2 s yr.
Proof.
  induction f1 as [|f1 IH]; intros f2 s yr H1 H2; [lia|]. destruct f2 as [|f2]; [lia|].
  destruct s as [b p lg lt st]. destruct b as [|[o|v|e] b]; cbn in *; auto.
  destruct o; auto; apply IH; cbn; lia.
Qed.

Lemma send_gen s :
  let r := send s in
  (exists pre, rest s = pre ++ rest (fst r)) /\
  (forall v, snd r = SConst v -> In (GValue v) (rest s) /\ (length (rest (fst r)) < length (rest s))%nat) /\
  (snd r = STask -> pending (fst r) = true /\ (length (rest (fst r)) < length (rest s))%nat /\ is_stopped (fst r) = false) /\
  (snd r <> STask -> pending (fst r) = pending s) /\
  (wf s -> wf (fst r)).
Proof.
  destruct s as [b p lg lt st]. unfold wf, pending.
  destruct lt as [|first|r0]; destruct st; destruct b as [|[o|v|e] b]; cbn;
  (split; [first [exists []; reflexivity | eexists [_]; reflexivity
                 | exists (GRaise e :: b); rewrite app_nil_r; reflexivity] |]);
  (split; [intros v0 E; try discriminate; inversion E; subst; split; auto; lia|]);
  (split; [intros E; try discriminate; repeat split; auto; lia|]);
  (split; [intros E; try reflexivity; exfalso; apply E; reflexivity|]);
  intros H Hs; try discriminate; auto.
Qed.

Lemma compute_gen s :
  pending s = true ->
  let r := compute s in
  (exists pre, rest s = pre ++ rest (fst r)) /\
  (forall v, snd r = TVal v -> In (GValue v) (rest s)) /\
  pending (fst r) = false /\
  (wf s -> wf (fst r)).
Proof.
  unfold pending, compute. destruct (last_task s) as [|first|r0] eqn:El; try discriminate. intros _.
  assert (G : forall first,
    let '(s1, r) := inner_loop (S (length (rest s))) s first in
    let r := (set_last s1 (LDone r), r) in
    (exists pre, rest s = pre ++ rest (fst r)) /\
    (forall v, snd r = TVal v -> In (GValue v) (rest s)) /\
    match last_task (fst r) with LPending _ => true | _ => false end = false /\
    (wf s -> wf (fst r))).
  { intros o. pose proof (inner_loop_gen (S (length (rest s))) s o) as H. cbn zeta in H.
    destruct (inner_loop _ s o) as [s1 r]. cbn [fst snd] in *.
    destruct H as (H1 & H2 & H3 & H4). split; [|split; [|split]]; auto.
    intros Hw Hs. cbn in *. split; auto. apply H4; auto. intros Hs'. apply Hw; auto.
  }
  destruct first as [v| |e].
  - specialize (G (TVal v)). destruct (inner_loop _ s (TVal v)) as [s1 r]. exact G.
  - specialize (G TEnd). destruct (inner_loop _ s TEnd) as [s1 r]. exact G.
  - cbn. split; [|split; [|split]]; auto; try discriminate.
    + exists []; reflexivity.
    + intros Hw Hs. cbn in *. split; auto. apply Hw; auto.
Qed.

Definition okitem (b : list step) (t : tres) : Prop := exists v, t = TVal v /\ In (GValue v) b.

Lemma okitem_suffix pre b t : okitem b t -> okitem (pre ++ b) t.
Proof. intros (v & E & H). exists v. split; auto. apply in_or_app; auto. Qed.

Lemma next_value_gen s :
  let r := next_value s in
  (exists pre, rest s = pre ++ rest (fst r)) /\
  (forall t, snd r = NVItem t ->
     (t = TEnd \/ okitem (rest s) t) /\ (length (rest (fst r)) < length (rest s))%nat) /\
  (pending s = false -> pending (fst r) = false) /\
  (wf s -> wf (fst r)).
Proof.
  unfold next_value. pose proof (send_gen s) as H. cbn zeta in H.
  destruct (send s) as [s1 r1]. cbn [fst snd] in H. destruct H as ((pre & H1) & H2 & H3 & H4 & H5).
  destruct r1 as [e|v|].
  - cbn [fst snd]. split; [|split; [|split]]; eauto.
    + intros t H. destruct (e =? E_STOPITER) in H; discriminate.
    + intros Hp. rewrite H4; auto. discriminate.
  - cbn [fst snd]. destruct (H2 v eq_refl) as [I1 I2]. split; [|split; [|split]]; eauto.
    + intros t H. inversion H; subst. split; auto. right. exists v. auto.
    + intros Hp. rewrite H4; auto. discriminate.
  - destruct (H3 eq_refl) as (I1 & I2 & I3).
    pose proof (compute_gen s1 I1) as C. cbn zeta in C.
    destruct (compute s1) as [s2 t]. cbn [fst snd] in *. destruct C as ((pre2 & C1) & C2 & C3 & C4).
    assert (L : (length (rest s2) <= length (rest s1))%nat).
    { rewrite C1, app_length. lia. }
    split; [|split; [|split]]; auto.
    + exists (pre ++ pre2). rewrite <- app_assoc, <- C1. exact H1.
    + intros t0 H. split; [|destruct t; inversion H; subst; lia].
      destruct t as [v| |e]; inversion H; subst; auto.
      right. exists v. split; auto. rewrite H1. apply in_or_app. right. auto.
Qed.

Lemma list_loop_gen : forall f s data,
  let r := list_loop f s data in
  (wf s -> wf (fst r)) /\ (pending s = false -> pending (fst r) = false) /\
  (forall l, snd r = LOk l -> forall t, In t l -> In t data \/ okitem (rest s) t) /\
  ((length (rest s) < f)%nat -> snd r <> LFuel).
Proof.
  induction f as [|f IH]; intros s data.
  - cbn. split; [|split; [|split]]; auto; try discriminate. intros; lia.
  - cbn [list_loop]. pose proof (next_value_gen s) as H. cbn zeta in H.
    destruct (next_value s) as [s1 x]. cbn [fst snd] in H. destruct H as ((pre & H1) & H2 & H3 & H4).
    destruct x as [|e|t].
    + cbn. split; [|split; [|split]]; auto; try discriminate. intros l E. inversion E; subst. auto.
    + cbn. split; [|split; [|split]]; auto; discriminate.
    + destruct (H2 t eq_refl) as [[Ht|Ht] Hl].
      * subst t. specialize (IH s1 data). cbn zeta in IH. destruct IH as (I1 & I2 & I3 & I4).
        split; [|split; [|split]]; auto.
        -- intros l E t Hin. destruct (I3 l E t Hin) as [?|Hk]; auto. right. rewrite H1. apply okitem_suffix; auto.
        -- intros Hf. apply I4. lia.
      * destruct Ht as (v & -> & Hv).
        specialize (IH s1 (data ++ [TVal v])). cbn zeta in IH. destruct IH as (I1 & I2 & I3 & I4).
        split; [|split; [|split]]; auto.
        -- intros l El t Hin. destruct (I3 l El t Hin) as [Hd|Hk].
           ++ apply in_app_or in Hd as [?|[<-|[]]]; auto. right. exists v; auto.
           ++ right. rewrite H1. apply okitem_suffix; auto.
        -- intros Hf. apply I4. lia.
Qed.

Lemma take_loop_gen : forall f s i n ret,
  let r := take_loop f s i n ret in
  (wf s -> wf (fst r)) /\ (pending s = false -> pending (fst r) = false) /\
  (forall l, snd r = LOk l -> forall t, In t l -> In t ret \/ okitem (rest s) t) /\
  ((length (rest s) < f)%nat -> snd r <> LFuel).
Proof.
  induction f as [|f IH]; intros s i n ret.
  - cbn. split; [|split; [|split]]; auto; try discriminate. intros; lia.
  - cbn [take_loop]. pose proof (next_value_gen s) as H. cbn zeta in H.
    destruct (next_value s) as [s1 x]. cbn [fst snd] in H. destruct H as ((pre & H1) & H2 & H3 & H4).
    destruct x as [|e|t].
    + cbn. split; [|split; [|split]]; auto; try discriminate. intros l E. inversion E; subst. auto.
    + cbn. split; [|split; [|split]]; auto; discriminate.
    + destruct (H2 t eq_refl) as [[Ht|Ht] Hl].
      * subst t. specialize (IH s1 (i + 1) n ret). cbn zeta in IH. destruct IH as (I1 & I2 & I3 & I4).
        split; [|split; [|split]]; auto.
        -- intros l E t Hin. destruct (I3 l E t Hin) as [?|Hk]; auto. right. rewrite H1. apply okitem_suffix; auto.
        -- intros Hf. apply I4. lia.
      * destruct Ht as (v & -> & Hv).
        assert (Hin1 : forall t, In t (ret ++ [TVal v]) -> In t ret \/ okitem (rest s) t).
        { intros t Hd. apply in_app_or in Hd as [?|[<-|[]]]; auto. right. exists v; auto. }
        destruct (i =? n - 1).
        -- cbn. split; [|split; [|split]]; auto; try discriminate.
           intros l E. inversion E; subst. auto.
        -- specialize (IH s1 (i + 1) n (ret ++ [TVal v])). cbn zeta in IH. destruct IH as (I1 & I2 & I3 & I4).
           split; [|split; [|split]]; auto.
           ++ intros l El t Hin. destruct (I3 l El t Hin) as [Hd|Hk]; auto.
              right. rewrite H1. apply okitem_suffix; auto.
           ++ intros Hf. apply I4. lia.
Qed.

(* END_OF_GENERATOR never appears in a result, and every element is a Value of the body — for every
   body (failing awaits, raises, END-valued futures included) and every state *)
Lemma okitem_not_end b : ~ okitem b TEnd.
Proof. intros (v & E & _). discriminate. Qed.

Lemma list_only_values s l :
  snd (list_of_generator s) = LOk l -> forall t, In t l -> okitem (rest s) t.
Proof.
  intros E t Hin. destruct (list_loop_gen (fuel_of s) s []) as (_ & _ & H & _).
  destruct (H l E t Hin) as [[]|]; auto.
Qed.

Lemma take_only_values s n l :
  snd (take_first s n) = LOk l -> forall t, In t l -> okitem (rest s) t.
Proof.
  unfold take_first. destruct (n <=? 0).
  - cbn. intros E. inversion E. intros t [].
  - intros E t Hin. destruct (take_loop_gen (fuel_of s) s 0 n []) as (_ & _ & H & _).
    destruct (H l E t Hin) as [[]|]; auto.
Qed.

Lemma no_end_marker s n l :
  (snd (list_of_generator s) = LOk l -> ~ In TEnd l) /\
  (snd (take_first s n) = LOk l -> ~ In TEnd l).
Proof.
  split; intros E Hin.
  - apply (okitem_not_end (rest s)). eapply list_only_values; eauto.
  - apply (okitem_not_end (rest s)). eapply take_only_values; eauto.
Qed.

(* the loop bounds of the model are never reached *)
Lemma no_fuel s n :
  snd (list_of_generator s) <> LFuel /\ snd (take_first s n) <> LFuel.
Proof.
  split.
  - destruct (list_loop_gen (fuel_of s) s []) as (_ & _ & _ & H). apply H. unfold fuel_of. lia.
  - unfold take_first. destruct (n <=? 0); [discriminate|].
    destruct (take_loop_gen (fuel_of s) s 0 n []) as (_ & _ & _ & H). apply H. unfold fuel_of. lia.
Qed.

(* ------------------------------------------------------------------ reachable states are well-formed *)
Lemma compute_not_pending s : pending s = false -> fst (compute s) = s.
Proof. unfold pending, compute. destruct (last_task s); try discriminate; reflexivity. Qed.

Lemma compute_wf s : wf s -> wf (fst (compute s)).
Proof.
  intros H. destruct (pending s) eqn:E.
  - apply (compute_gen s E); auto.
  - rewrite compute_not_pending; auto.
Qed.

Lemma step_op_wf s h o : wf s -> wf (fst (fst (step_op (s, h) o))).
Proof.
  intros H. destruct o as [| | |n]; cbn [step_op].
  - pose proof (send_gen s) as G. cbn zeta in G. destruct (send s) as [s1 r]. cbn [fst snd] in G.
    destruct G as (_ & _ & _ & _ & G). destruct r; cbn; auto.
  - destruct h; cbn; auto. pose proof (compute_wf s H) as G. destruct (compute s) as [s1 t]. cbn in *. auto.
  - pose proof (list_loop_gen (fuel_of s) s []) as G. cbn zeta in G. unfold list_of_generator.
    destruct (list_loop (fuel_of s) s []) as [s1 r]. cbn [fst snd] in *. apply G; auto.
  - unfold take_first. destruct (n <=? 0); [cbn; auto|].
    pose proof (take_loop_gen (fuel_of s) s 0 n []) as G. cbn zeta in G.
    destruct (take_loop (fuel_of s) s 0 n []) as [s1 r]. cbn [fst snd] in *. apply G; auto.
Qed.

Lemma run_wf : forall ops sh, wf (fst sh) -> wf (fst (fst (run sh ops))).
Proof.
  induction ops as [|o ops IH]; intros [s h] H; cbn [run]; auto.
  pose proof (step_op_wf s h o H) as G. destruct (step_op (s, h) o) as [sh1 r]. cbn [fst] in G.
  specialize (IH sh1 G). destruct (run sh1 ops) as [sh2 rs]. cbn in *. auto.
Qed.

Lemma init_wf b : wf (init b).
Proof. intros H. discriminate. Qed.

Lemma reachable_wf b ops : wf (fst (fst (run (init b, HNone) ops))).
Proof. apply run_wf. apply init_wf. Qed.

(* ------------------------------------------------------------------ an exhausted generator keeps raising StopIteration *)
Lemma exhausted_send s :
  rest s = [] -> pending s = false ->
  snd (send s) = SRaise E_STOPITER /\ is_stopped (fst (send s)) = true /\
  rest (fst (send s)) = [] /\ pending (fst (send s)) = false.
Proof.
  destruct s as [b p lg lt st]. unfold pending, send. cbn [rest last_task is_stopped]. intros -> H.
  destruct lt; try discriminate; destruct st; cbn; auto.
Qed.

Definition stopped_res (o : op) (r : res) : Prop :=
  match o with
  | ONext => r = RRaise E_STOPITER
  | OList | OTake _ => r = RList []
  | OCompute => True
  end.

Lemma stopped_step s h o :
  wf s -> is_stopped s = true ->
  fst (fst (step_op (s, h) o)) = s /\ stopped_res o (snd (step_op (s, h) o)).
Proof.
  intros Hwf Hs. destruct (Hwf Hs) as [Hr Hp]. destruct o as [| | |n]; cbn [step_op].
  - rewrite stopped_send by auto. cbn. auto.
  - destruct h; cbn; auto. pose proof (compute_not_pending s Hp) as G.
    destruct (compute s) as [s1 t]. cbn in *. auto.
  - unfold list_of_generator, fuel_of. rewrite Hr. cbn [length list_loop].
    rewrite stopped_next_value by auto. cbn. auto.
  - unfold take_first. destruct (n <=? 0); [cbn; auto|].
    unfold fuel_of. rewrite take_loop_stopped by auto. cbn. auto.
Qed.

Fixpoint all_stopped (ops : list op) (rs : list (res * Z * bool)) : Prop :=
  match ops, rs with
  | [], [] => True
  | o :: ops', (r, _, st) :: rs' => stopped_res o r /\ st = true /\ all_stopped ops' rs'
  | _, _ => False
  end.

Lemma stays_stopped : forall ops s h,
  wf s -> is_stopped s = true ->
  fst (fst (run (s, h) ops)) = s /\ all_stopped ops (snd (run (s, h) ops)).
Proof.
  induction ops as [|o ops IH]; intros s h Hwf Hs; cbn [run]; [cbn; auto|].
  destruct (stopped_step s h o Hwf Hs) as [G1 G2].
  destruct (step_op (s, h) o) as [[s1 h1] r]. cbn [fst snd] in *. subst s1.
  destruct (IH s h1 Hwf Hs) as [I1 I2]. destruct (run (s, h1) ops) as [sh2 rs]. cbn [fst snd] in *.
  split; auto. cbn. auto.
Qed.

(* ------------------------------------------------------------------ the unrepaired take_first *)
Lemma take_first_orig_refuted :
  exists b, snd (take_first_orig (init b) 0) <> LOk [] /\ pulls (fst (take_first_orig (init b) 0)) <> pulls (init b).
Proof. exists [GValue (VInt 1)]. cbn. split; discriminate. Qed.

(* for n >= 1 the unrepaired loop is the repaired one *)
Lemma take_first_orig_pos s n : 1 <= n -> take_first_orig s n = take_first s n.
Proof. intros H. unfold take_first, take_first_orig. destruct (n <=? 0) eqn:E; auto. apply Z.leb_le in E. lia. Qed.

(* ------------------------------------------------------------------ the hypotheses are satisfiable *)
Definition example_body : list step :=
  [GAwait (TVal (VInt 7)); GValue (VInt 1); GAwait TEnd; GAwait (TVal VNone); GValue (VInt 2); GAwait (TVal (VInt 9))].

Lemma example_ok :
  let b := example_body in
  wf (init b) /\ pending (init b) = false /\ clean b /\
  snd (take_first (init b) 1) = LOk [TVal (VInt 1)] /\ pulls (fst (take_first (init b) 1)) = 2%nat /\
  snd (list_of_generator (fst (take_first (init b) 1))) = LOk [TVal (VInt 2)].
Proof. cbn. split; [intros E; discriminate|]. repeat split; reflexivity. Qed.

(* ------------------------------------------------------------------ nested generators *)
(* what the outer `for task in inner` loop sees is what next_value sees, as long as nothing raises *)
Lemma drive_next_value f s :
  (forall e, snd (next_value s) <> NVRaise e) ->
  drive (S f) s =
  match snd (next_value s) with
  | NVItem t => DTask t :: drive f (fst (next_value s))
  | _ => []
  end.
Proof.
  unfold next_value. cbn [drive]. destruct (send s) as [s1 r]. destruct r as [e|v|].
  - cbn. intros H. destruct (e =? E_STOPITER); auto. exfalso. apply (H e). reflexivity.
  - cbn. auto.
  - destruct (compute s1) as [s2 t]. cbn. intros H. destruct t; auto. exfalso. apply (H e). reflexivity.
Qed.

(* the body ends with an await (after its last Value, or has only awaits) *)
Fixpoint trailing (b : list step) : bool :=
  match b with
  | [] => false
  | GAwait _ :: b' => match b' with [] => true | _ => trailing b' end
  | _ :: b' => trailing b'
  end.

Lemma trailing_all_awaits b : b <> [] -> after_awaits b = [] -> trailing b = true.
Proof.
  induction b as [|st b IH]; intros H1 H2; [congruence|].
  destruct st; cbn in *; try discriminate. destruct b; auto. apply IH; auto. discriminate.
Qed.

Lemma trailing_after b v tl : after_awaits b = GValue v :: tl -> trailing b = trailing tl.
Proof.
  induction b as [|st b IH]; intros H; [discriminate|].
  destruct st; cbn in *; try discriminate.
  - destruct b; [discriminate|]. auto.
  - inversion H; subst. reflexivity.
Qed.

Definition drive_spec (b : list step) : list drv :=
  map (fun v => DTask (TVal v)) (values b) ++ (if trailing b then [DTask TEnd] else []).

Lemma drive_clean : forall f s,
  wf s -> pending s = false -> clean (rest s) -> (length (rest s) + 2 <= f)%nat ->
  drive f s = if is_stopped s then [] else drive_spec (rest s).
Proof.
  induction f as [|f IH]; intros s Hwf Hp Hc Hf; [lia|].
  destruct (is_stopped s) eqn:Hs.
  - rewrite drive_next_value; rewrite stopped_next_value by auto; cbn; auto. discriminate.
  - pose proof (next_value_clean s Hc Hp Hs) as H. cbn zeta in H.
    assert (Hnr : forall e, snd (next_value s) <> NVRaise e).
    { intros e E. destruct H as (_ & H). rewrite E in H.
      destruct (rest s); [destruct H; discriminate|]. destruct H as (_ & H).
      destruct (after_awaits (s0 :: l)) as [|[| |] ?]; destruct H; discriminate. }
    rewrite (drive_next_value f s Hnr).
    destruct (next_value s) as [s1 x]. cbn [fst snd] in *. destruct H as (Hp1 & H).
    destruct (rest s) as [|s0 b] eqn:Hr.
    + destruct H as (-> & _). reflexivity.
    + destruct H as (Hpl & H).
      pose proof (values_after (s0 :: b)) as Hv. pose proof (length_after (s0 :: b)) as Hl.
      pose proof (clean_after _ Hc) as Hca.
      destruct (after_awaits (s0 :: b)) as [|[o|v|e] tl] eqn:Ha.
      * destruct H as (-> & H1 & H2).
        rewrite (IH s1 (wf_stopped_nil s1 H1 Hp1) Hp1) by (rewrite H1; cbn in *; auto; lia).
        rewrite H2. unfold drive_spec. rewrite <- Hv. cbn [values map app].
        rewrite trailing_all_awaits; auto. discriminate.
      * exfalso. destruct (clean_after_shape _ Hc) as [E|(v & tl' & E)]; rewrite Ha in E; discriminate.
      * destruct H as (-> & H1 & H2).
        apply clean_cons in Hca as [_ Hca].
        rewrite (IH s1 (wf_running s1 H2) Hp1) by (rewrite H1; cbn in *; auto; lia).
        rewrite H2, H1. unfold drive_spec. rewrite <- Hv. cbn [values map app].
        rewrite (trailing_after _ v tl Ha). reflexivity.
      * exfalso. destruct (clean_after_shape _ Hc) as [E|(v & tl' & E)]; rewrite Ha in E; discriminate.
Qed.

Lemma conv_values_clean : forall l tail,
  (tail = [] \/ tail = [DTask TEnd]) ->
  let b := flat_map conv (map (fun v => DTask (TVal v)) l ++ tail) in
  clean b /\ values b = l.
Proof.
  induction l as [|v l IH]; intros tail Ht; cbn.
  - destruct Ht as [->| ->]; cbn; split; reflexivity.
  - destruct (IH tail Ht) as [I1 I2]. split; [exact I1|]. f_equal. exact I2.
Qed.

(* values in program order of a nested body; no failing await / raise anywhere in it *)
Fixpoint tvalues1 (g : gstep) : list val :=
  match g with
  | NValue v => [v]
  | NNest b => flat_map tvalues1 b
  | _ => []
  end.
Fixpoint tclean1 (g : gstep) : bool :=
  match g with
  | NAwait (TErr _) => false
  | NRaise _ => false
  | NNest b => forallb tclean1 b
  | NYield w => match unwrap w with Err _ => false | Ok _ => true end   (* no member of w fails *)
  | _ => true
  end.

Lemma clean_app a b : clean a -> clean b -> clean (a ++ b).
Proof. unfold clean. intros H1 H2. rewrite forallb_app, H1, H2. reflexivity. Qed.

Lemma nested1 : forall g, tclean1 g = true -> clean (inline1 g) /\ values (inline1 g) = tvalues1 g.
Proof.
  fix IH 1. intros g. destruct g as [o|v|e|b|w]; cbn [tclean1 inline1 tvalues1].
  - destruct o; intros H; try discriminate; cbn; auto.
  - cbn. auto.
  - discriminate.
  - intros H.
    assert (G : clean (flat_map inline1 b) /\ values (flat_map inline1 b) = flat_map tvalues1 b).
    { induction b as [|g b IHb]; [cbn; auto|].
      cbn in H. apply andb_true_iff in H as [H1 H2].
      destruct (IH g H1) as [A1 A2]. destruct (IHb H2) as [B1 B2].
      cbn. split; [apply clean_app; auto|]. rewrite values_app, A2, B2. reflexivity. }
    destruct G as [G1 G2]. cbn zeta.
    rewrite (drive_clean _ (init (flat_map inline1 b)) (init_wf _) eq_refl G1) by (unfold fuel_of; cbn; lia).
    cbn [is_stopped init rest]. unfold drive_spec.
    rewrite <- G2. apply conv_values_clean. destruct (trailing _); auto.
  - unfold yield_step. destruct (unwrap w); intros H; try discriminate; cbn; auto.
Qed.

Lemma nested_values b :
  forallb tclean1 b = true -> clean (inline b) /\ values (inline b) = flat_map tvalues1 b.
Proof.
  unfold inline. induction b as [|g b IH]; intros H; [cbn; auto|].
  cbn in H. apply andb_true_iff in H as [H1 H2].
  destruct (nested1 g H1) as [A1 A2]. destruct (IH H2) as [B1 B2].
  cbn. split; [apply clean_app; auto|]. rewrite values_app, A2, B2. reflexivity.
Qed.

(* list_of_generator / take_first on a nested generator: the Values of the tree in program order *)
Lemma nested_list_take b n :
  forallb tclean1 b = true ->
  snd (list_of_generator (init (inline b))) = LOk (map TVal (flat_map tvalues1 b)) /\
  snd (take_first (init (inline b)) n) = LOk (map TVal (firstn (Z.to_nat n) (flat_map tvalues1 b))).
Proof.
  intros H. destruct (nested_values b H) as [H1 H2]. split.
  - destruct (list_all_values (init (inline b)) (init_wf _) eq_refl H1) as (E & _).
    rewrite E. cbn [rest init]. rewrite H2. reflexivity.
  - destruct (take_first_spec (init (inline b)) n (init_wf _) eq_refl H1) as (E & _).
    rewrite E. cbn [rest init]. rewrite H2. reflexivity.
Qed.

(* ------------------------------------------------------------------ bodies whose await fails / that raise *)
Fixpoint first_failure (b : list step) : option exn :=
  match b with
  | [] => None
  | GAwait (TErr e) :: _ => Some e
  | GRaise e :: _ => Some e
  | _ :: b' => first_failure b'
  end.

Lemma inner_loop_fail : forall b f p lg lt st yr e,
  first_failure b = Some e -> (length b < f)%nat ->
  let r := inner_loop f (mkG b p lg lt st) yr in
  last_task (fst r) = lt /\
  (snd r = TErr e \/
   ((exists v, snd r = TVal v) /\ first_failure (rest (fst r)) = Some e /\
    (length (rest (fst r)) < length b)%nat /\ is_stopped (fst r) = st)).
Proof.
  induction b as [|s0 b IH]; intros f p lg lt st yr e Hf Hl; [discriminate|].
  destruct f as [|f]; [cbn in Hl; lia|].
  destruct s0 as [o|v|e0].
  - destruct o as [v| |e0].
    + cbn in Hf, Hl. specialize (IH f (S p) (lg ++ [yr]) lt st (TVal v) e Hf ltac:(lia)).
      cbn in *. destruct IH as (I1 & [I2|(I2 & I3 & I4 & I5)]); (split; [auto|]); [left; auto | right; repeat split; auto; lia].
    + cbn in Hf, Hl. specialize (IH f (S p) (lg ++ [yr]) lt st TEnd e Hf ltac:(lia)).
      cbn in *. destruct IH as (I1 & [I2|(I2 & I3 & I4 & I5)]); (split; [auto|]); [left; auto | right; repeat split; auto; lia].
    + cbn in *. inversion Hf; subst. auto.
  - cbn in *. split; auto. right. repeat split; eauto.
  - cbn in *. inversion Hf; subst. auto.
Qed.

Lemma next_value_fail s e :
  wf s -> pending s = false -> first_failure (rest s) = Some e -> e <> E_STOPITER ->
  let r := next_value s in
  snd r = NVRaise e \/
  ((exists v, snd r = NVItem (TVal v)) /\ first_failure (rest (fst r)) = Some e /\
   (length (rest (fst r)) < length (rest s))%nat /\ pending (fst r) = false /\ is_stopped (fst r) = false).
Proof.
  destruct s as [b p lg lt st]. unfold wf, pending. cbn [rest last_task is_stopped].
  intros Hwf Hp Hf He.
  assert (Hst : st = false).
  { destruct st; auto. destruct (Hwf eq_refl) as [Hr _]. subst b. discriminate. }
  subst st. apply Z.eqb_neq in He.
  destruct b as [|s0 b]; [discriminate|].
  destruct s0 as [o|v|e0].
  - assert (Hsend : send (mkG (GAwait o :: b) p lg lt false) =
                    (mkG b (S p) (lg ++ [TVal VNone]) (LPending o) false, STask)).
    { unfold send. destruct lt; try discriminate; reflexivity. }
    unfold next_value. rewrite Hsend. unfold compute. cbn [last_task rest].
    destruct o as [v| |e0].
    + cbn in Hf.
      pose proof (inner_loop_fail b (S (length b)) (S p) (lg ++ [TVal VNone]) (LPending (TVal v)) false (TVal v) e Hf ltac:(lia)) as H.
      cbn zeta in H. destruct (inner_loop _ _ _) as [s1 r1]. cbn [fst snd] in *.
      destruct H as (I1 & [->|((v' & ->) & I3 & I4 & I5)]); [left; reflexivity|].
      right. cbn. repeat split; eauto; lia.
    + cbn in Hf.
      pose proof (inner_loop_fail b (S (length b)) (S p) (lg ++ [TVal VNone]) (LPending TEnd) false TEnd e Hf ltac:(lia)) as H.
      cbn zeta in H. destruct (inner_loop _ _ _) as [s1 r1]. cbn [fst snd] in *.
      destruct H as (I1 & [->|((v' & ->) & I3 & I4 & I5)]); [left; reflexivity|].
      right. cbn. repeat split; eauto; lia.
    + cbn in Hf. inversion Hf; subst. left. reflexivity.
  - cbn in Hf. right. unfold next_value, send. destruct lt; try discriminate; cbn; repeat split; eauto.
  - cbn in Hf. inversion Hf; subst. left. unfold next_value, send.
    destruct lt; try discriminate; cbn; rewrite He; reflexivity.
Qed.

Lemma list_loop_fail : forall f s data e,
  wf s -> pending s = false -> first_failure (rest s) = Some e -> e <> E_STOPITER ->
  (length (rest s) + 1 <= f)%nat ->
  snd (list_loop f s data) = LErr e.
Proof.
  induction f as [|f IH]; intros s data e Hwf Hp Hf He Hl; [lia|].
  cbn [list_loop]. pose proof (next_value_fail s e Hwf Hp Hf He) as H. cbn zeta in H.
  destruct (next_value s) as [s1 x]. cbn [fst snd] in H.
  destruct H as [->|((v & ->) & H1 & H2 & H3 & H4)]; [reflexivity|].
  apply IH; auto; [apply wf_running; auto|lia].
Qed.

(* the first failing await / raise of the body is what list_of_generator raises *)
Lemma list_fails s e :
  wf s -> pending s = false -> first_failure (rest s) = Some e -> e <> E_STOPITER ->
  snd (list_of_generator s) = LErr e.
Proof.
  intros Hwf Hp Hf He. unfold list_of_generator, fuel_of. apply list_loop_fail; auto. lia.
Qed.

(* ------------------------------------------------------------------ yields that are not Values: None, futures, containers
   (the `else` paths of send / _send_inner).  Such a yield is never the end of the generator. *)
Lemma yield_not_exhaustion s w b :
  rest s = yield_step w :: b -> pending s = false -> is_stopped s = false ->
  send s = (mkG b (S (pulls s)) (sent s ++ [TVal VNone]) (LPending (tres_of (unwrap w))) false, STask).
Proof.
  destruct s as [r p lg lt st]. unfold pending, yield_step. cbn [rest last_task is_stopped pulls sent].
  intros -> Hp ->. unfold send. destruct lt; try discriminate; reflexivity.
Qed.

(* the pause `yield None` in particular: a task is handed out, the body is resumed with None *)
Lemma pause_step : yield_step WNone = GAwait (TVal VNone).
Proof. reflexivity. Qed.

(* StopIteration comes out of send only when the body has nothing left to run (or is itself the
   one raising it, which PEP 479 rules out for real generators) *)
Lemma stop_only_when_exhausted s :
  wf s -> pending s = false -> snd (send s) = SRaise E_STOPITER ->
  rest s = [] \/ exists b, rest s = GRaise E_STOPITER :: b.
Proof.
  destruct s as [r p lg lt st]. unfold wf, pending. cbn [rest last_task is_stopped].
  intros Hwf Hp. destruct st.
  - destruct (Hwf eq_refl) as [-> _]. auto.
  - unfold send. destruct lt; try discriminate; destruct r as [|[o|v|e] r]; cbn; auto;
      intros E; try discriminate; inversion E; subst; eauto.
Qed.

(* a task of the generator computes to END_OF_GENERATOR only by running the body to its end *)
Lemma inner_loop_end : forall f s yr,
  snd (inner_loop f s yr) = TEnd -> rest (fst (inner_loop f s yr)) = [] /\ is_stopped (fst (inner_loop f s yr)) = true.
Proof.
  induction f as [|f IH]; intros s yr; [cbn; discriminate|].
  destruct s as [b p lg lt st]. destruct b as [|[o|v|e] b]; cbn; try discriminate; auto.
  destruct o as [v| |e]; cbn; try discriminate; apply IH.
Qed.

Lemma end_only_when_exhausted s :
  pending s = true -> snd (compute s) = TEnd ->
  rest (fst (compute s)) = [] /\ is_stopped (fst (compute s)) = true.
Proof.
  unfold pending, compute. destruct (last_task s) as [|first|r0] eqn:El; try discriminate. intros _.
  destruct first as [v| |e]; cbn [fst snd]; try discriminate.
  - pose proof (inner_loop_end (S (length (rest s))) s (TVal v)) as H.
    destruct (inner_loop _ s (TVal v)) as [s1 r]. cbn [fst snd] in *. intros E. destruct (H E). auto.
  - pose proof (inner_loop_end (S (length (rest s))) s TEnd) as H.
    destruct (inner_loop _ s TEnd) as [s1 r]. cbn [fst snd] in *. intros E. destruct (H E). auto.
Qed.

(* for list_of_generator / take_first a body (nested, with any None / future / container yields that
   do not fail) is the body that yields just its Values *)
Lemma values_only_clean l :
  forallb tclean1 (map NValue l) = true /\ flat_map tvalues1 (map NValue l) = l.
Proof. induction l as [|v l [I1 I2]]; cbn; auto. split; auto. f_equal. exact I2. Qed.

Lemma only_values_matter b n :
  forallb tclean1 b = true ->
  let b' := map NValue (flat_map tvalues1 b) in
  snd (list_of_generator (init (inline b))) = snd (list_of_generator (init (inline b'))) /\
  snd (take_first (init (inline b)) n) = snd (take_first (init (inline b'))  n).
Proof.
  intros H. cbn zeta. destruct (values_only_clean (flat_map tvalues1 b)) as [C V].
  destruct (nested_list_take b n H) as [-> ->].
  destruct (nested_list_take _ n C) as [-> ->]. rewrite V. auto.
Qed.

(* the hypotheses are satisfiable with every kind of non-Value yield, and the model computes *)
Definition example_yields : list gstep :=
  [NYield WNone; NAwait (TVal (VInt 7)); NYield (WTuple []); NValue (VInt 1);
   NYield (WList [WNone; WFut (Ok (VInt 3))]); NYield WNone; NValue (VInt 2);
   NNest [NYield (WDict [(1, WFut (Ok (VInt 4)))]); NValue (VInt 3); NYield WNone]; NYield WNone].

Lemma example_yields_ok :
  let b := example_yields in
  forallb tclean1 b = true /\
  snd (list_of_generator (init (inline b))) = LOk [TVal (VInt 1); TVal (VInt 2); TVal (VInt 3)] /\
  snd (take_first (init (inline b)) 2) = LOk [TVal (VInt 1); TVal (VInt 2)] /\
  snd (send (init (inline b))) = STask /\ is_stopped (fst (send (init (inline b)))) = false.
Proof. vm_compute. repeat split; reflexivity. Qed.

(* ------------------------------------------------------------------ the payload of a Value is opaque *)
Definition rl_tres (f : val -> val) (t : tres) : tres := match t with TVal v => TVal (f v) | _ => t end.
Definition rl_step (f : val -> val) (st : step) : step := match st with GValue v => GValue (f v) | _ => st end.
Definition rl_ltask (f : val -> val) (t : ltask) : ltask := match t with LDone r => LDone (rl_tres f r) | _ => t end.
Definition rl_state (f : val -> val) (s : gstate) : gstate :=
  mkG (map (rl_step f) (rest s)) (pulls s) (sent s) (rl_ltask f (last_task s)) (is_stopped s).
Definition rl_yielded (f : val -> val) (y : yielded) : yielded := match y with YValue v => YValue (f v) | _ => y end.
Definition rl_sres (f : val -> val) (r : sres) : sres := match r with SConst v => SConst (f v) | _ => r end.
Definition rl_nv (f : val -> val) (x : nv) : nv := match x with NVItem t => NVItem (rl_tres f t) | _ => x end.
Definition rl_lres (f : val -> val) (r : lres) : lres := match r with LOk l => LOk (map (rl_tres f) l) | _ => r end.
Definition rl_handle (f : val -> val) (h : handle) : handle :=
  match h with HConst v => HConst (f v) | HDone t => HDone (rl_tres f t) | _ => h end.
Definition rl_res (f : val -> val) (r : res) : res :=
  match r with RConst v => RConst (f v) | RItem t => RItem (rl_tres f t) | RList l => RList (map (rl_tres f) l) | _ => r end.
Definition rl_sh (f : val -> val) (sh : gstate * handle) : gstate * handle := (rl_state f (fst sh), rl_handle f (snd sh)).
Definition rl_out (f : val -> val) (x : res * Z * bool) : res * Z * bool :=
  let '(r, p, st) := x in (rl_res f r, p, st).

Lemma gen_send_rl f s x :
  gen_send (rl_state f s) x = (rl_state f (fst (gen_send s x)), rl_yielded f (snd (gen_send s x))).
Proof. destruct s as [r p se lt st]. unfold gen_send, rl_state. cbn. destruct r as [|[o|v|e] b]; reflexivity. Qed.

Lemma get_one_value_rl f s x :
  get_one_value (rl_state f s) x = (rl_state f (fst (get_one_value s x)), rl_yielded f (snd (get_one_value s x))).
Proof.
  unfold get_one_value. rewrite gen_send_rl. destruct (gen_send s x) as [s1 y]. cbn [fst snd].
  destruct y; reflexivity.
Qed.

Lemma send_rl f s : send (rl_state f s) = (rl_state f (fst (send s)), rl_sres f (snd (send s))).
Proof.
  unfold send. change (last_task (rl_state f s)) with (rl_ltask f (last_task s)).
  change (is_stopped (rl_state f s)) with (is_stopped s).
  destruct (last_task s) eqn:E; cbn [rl_ltask]; try reflexivity;
    (destruct (is_stopped s); [reflexivity|]; rewrite get_one_value_rl;
     destruct (get_one_value s (TVal VNone)) as [s1 y]; cbn [fst snd]; destruct y; reflexivity).
Qed.

Lemma inner_loop_rl f : forall fuel s yr,
  inner_loop fuel (rl_state f s) yr = (rl_state f (fst (inner_loop fuel s yr)), rl_tres f (snd (inner_loop fuel s yr))).
Proof.
  induction fuel as [|fuel IH]; intros s yr; [reflexivity|].
  cbn [inner_loop]. rewrite get_one_value_rl. destruct (get_one_value s yr) as [s1 y]. cbn [fst snd].
  destruct y as [|e|v|o]; cbn [rl_yielded]; try reflexivity.
  destruct o; try reflexivity; apply IH.
Qed.

Lemma compute_rl f s : compute (rl_state f s) = (rl_state f (fst (compute s)), rl_tres f (snd (compute s))).
Proof.
  unfold compute. change (last_task (rl_state f s)) with (rl_ltask f (last_task s)).
  change (rest (rl_state f s)) with (map (rl_step f) (rest s)). rewrite map_length.
  destruct (last_task s) as [|first|r] eqn:E; cbn [rl_ltask]; try reflexivity.
  destruct first; try reflexivity;
    (rewrite inner_loop_rl; destruct (inner_loop _ s _) as [s1 r]; reflexivity).
Qed.

Lemma next_value_rl f s : next_value (rl_state f s) = (rl_state f (fst (next_value s)), rl_nv f (snd (next_value s))).
Proof.
  unfold next_value. rewrite send_rl. destruct (send s) as [s1 r]. cbn [fst snd].
  destruct r as [e|v|]; cbn [rl_sres].
  - destruct (e =? E_STOPITER); reflexivity.
  - reflexivity.
  - rewrite compute_rl. destruct (compute s1) as [s2 t]. cbn [fst snd]. destruct t; reflexivity.
Qed.

Lemma list_loop_rl f : forall fuel s data,
  list_loop fuel (rl_state f s) (map (rl_tres f) data) =
  (rl_state f (fst (list_loop fuel s data)), rl_lres f (snd (list_loop fuel s data))).
Proof.
  induction fuel as [|fuel IH]; intros s data; [reflexivity|].
  cbn [list_loop]. rewrite next_value_rl. destruct (next_value s) as [s1 x]. cbn [fst snd].
  destruct x as [|e|t]; cbn [rl_nv]; try reflexivity.
  destruct t; cbn [rl_tres]; try apply IH.
  - rewrite <- IH. rewrite map_app. reflexivity.
  - rewrite <- IH. rewrite map_app. reflexivity.
Qed.

Lemma take_loop_rl f : forall fuel s i n ret,
  take_loop fuel (rl_state f s) i n (map (rl_tres f) ret) =
  (rl_state f (fst (take_loop fuel s i n ret)), rl_lres f (snd (take_loop fuel s i n ret))).
Proof.
  induction fuel as [|fuel IH]; intros s i n ret; [reflexivity|].
  cbn [take_loop]. rewrite next_value_rl. destruct (next_value s) as [s1 x]. cbn [fst snd].
  destruct x as [|e|t]; cbn [rl_nv]; try reflexivity.
  destruct t; cbn [rl_tres]; try apply IH.
  - destruct (i =? n - 1); [cbn; rewrite map_app; reflexivity|]. rewrite <- IH. rewrite map_app. reflexivity.
  - destruct (i =? n - 1); [cbn; rewrite map_app; reflexivity|]. rewrite <- IH. rewrite map_app. reflexivity.
Qed.

Lemma fuel_of_rl f s : fuel_of (rl_state f s) = fuel_of s.
Proof. unfold fuel_of. cbn [rest rl_state]. rewrite map_length. reflexivity. Qed.

Lemma list_of_generator_rl f s :
  list_of_generator (rl_state f s) = (rl_state f (fst (list_of_generator s)), rl_lres f (snd (list_of_generator s))).
Proof. unfold list_of_generator. rewrite fuel_of_rl. apply (list_loop_rl f (fuel_of s) s []). Qed.

Lemma take_first_rl f s n :
  take_first (rl_state f s) n = (rl_state f (fst (take_first s n)), rl_lres f (snd (take_first s n))).
Proof.
  unfold take_first. destruct (n <=? 0); [reflexivity|]. rewrite fuel_of_rl. apply (take_loop_rl f (fuel_of s) s 0 n []).
Qed.

Lemma step_op_rl f sh o :
  step_op (rl_sh f sh) o = (rl_sh f (fst (step_op sh o)), rl_res f (snd (step_op sh o))).
Proof.
  destruct sh as [s h]. unfold rl_sh. cbn [fst snd]. destruct o as [| | |n]; cbn [step_op].
  - rewrite send_rl. destruct (send s) as [s1 r]. cbn [fst snd]. destruct r; reflexivity.
  - destruct h as [|v| |t]; cbn [rl_handle]; try reflexivity.
    + rewrite compute_rl. destruct (compute s) as [s1 t]. cbn [fst snd]. destruct t; reflexivity.
    + destruct t; reflexivity.
  - rewrite list_of_generator_rl. destruct (list_of_generator s) as [s1 r]. cbn [fst snd]. destruct r; reflexivity.
  - rewrite take_first_rl. destruct (take_first s n) as [s1 r]. cbn [fst snd]. destruct r; reflexivity.
Qed.

Lemma run_relabel f : forall ops sh,
  run (rl_sh f sh) ops = (rl_sh f (fst (run sh ops)), map (rl_out f) (snd (run sh ops))).
Proof.
  induction ops as [|o ops IH]; intros sh; [reflexivity|].
  cbn [run]. rewrite step_op_rl. destruct (step_op sh o) as [sh1 r]. cbn [fst snd].
  rewrite IH. destruct (run sh1 ops) as [sh2 rs]. cbn [fst snd map rl_out].
  destruct sh1; reflexivity.
Qed.

(* the body is not told either: what it receives at its yields, how often it is resumed, what the generator's
   task waits for first and the exhaustion flag do not depend on the payloads *)
Lemma relabel_unobserved f ops sh :
  let s1 := fst (fst (run (rl_sh f sh) ops)) in
  let s0 := fst (fst (run sh ops)) in
  sent s1 = sent s0 /\ pulls s1 = pulls s0 /\ is_stopped s1 = is_stopped s0 /\
  length (rest s1) = length (rest s0) /\ pending s1 = pending s0 /\
  (forall first, last_task s0 = LPending first -> last_task s1 = LPending first).
Proof.
  cbn zeta. rewrite run_relabel. cbn [fst snd rl_sh rl_state sent pulls is_stopped rest last_task].
  repeat split; try reflexivity.
  - apply map_length.
  - unfold pending, rl_state. cbn [last_task]. generalize (last_task (fst (fst (run sh ops)))). intros lt. destruct lt; reflexivity.
  - intros first E. rewrite E. reflexivity.
Qed.

(* relabelling the payloads of a tree body *)
Fixpoint tmap (f : val -> val) (g : gstep) : gstep :=
  match g with
  | NValue v => NValue (f v)
  | NNest b => NNest (map (tmap f) b)
  | _ => g
  end.

Definition tflat (g : gstep) : bool := match g with NNest _ => false | _ => true end.

Lemma inline_flat_rl f : forall b,
  forallb tflat b = true -> inline (map (tmap f) b) = map (rl_step f) (inline b).
Proof.
  unfold inline. induction b as [|g b IH]; intros H; [reflexivity|].
  cbn in H. apply andb_true_iff in H as [H1 H2]. cbn [map flat_map]. rewrite map_app, (IH H2). f_equal.
  destruct g; try discriminate; reflexivity.
Qed.

(* what the correspondence evaluates, on bodies without nested generators: relabelling the payloads of the body
   relabels the results and changes nothing else (pulls, is_stopped per op, values received by the body) *)
Lemma run_case_relabel f b ops :
  forallb tflat b = true ->
  run_case (map (tmap f) b) ops = (map (rl_out f) (fst (run_case b ops)), snd (run_case b ops)).
Proof.
  intros H. unfold run_case. rewrite (inline_flat_rl f b H).
  change (init (map (rl_step f) (inline b)), HNone) with (rl_sh f (init (inline b), HNone)).
  rewrite run_relabel. destruct (run (init (inline b), HNone) ops) as [sh rs]. reflexivity.
Qed.

Lemma tmap_clean_values f : forall g,
  tclean1 (tmap f g) = tclean1 g /\ tvalues1 (tmap f g) = map f (tvalues1 g).
Proof.
  fix IH 1. intros g. destruct g as [o|v|e|b|w]; cbn [tmap tclean1 tvalues1]; auto.
  induction b as [|g b [I1 I2]]; [auto|]. destruct (IH g) as [A1 A2].
  cbn [map forallb flat_map]. rewrite A1, I1, A2, I2, map_app. auto.
Qed.

Lemma tmap_clean_values_list f : forall b,
  forallb tclean1 (map (tmap f) b) = forallb tclean1 b /\
  flat_map tvalues1 (map (tmap f) b) = map f (flat_map tvalues1 b).
Proof.
  induction b as [|g b [I1 I2]]; [auto|]. destruct (tmap_clean_values f g) as [A1 A2].
  cbn [map forallb flat_map]. rewrite A1, I1, A2, I2, map_app. auto.
Qed.

(* nested generators of any depth (bodies that cannot fail): the payloads travel through
   `x = yield task; yield Value(x)` of every level untouched *)
Lemma nested_relabel f b n :
  forallb tclean1 b = true ->
  snd (list_of_generator (init (inline (map (tmap f) b)))) = rl_lres f (snd (list_of_generator (init (inline b)))) /\
  snd (take_first (init (inline (map (tmap f) b))) n) = rl_lres f (snd (take_first (init (inline b)) n)).
Proof.
  intros H. destruct (tmap_clean_values_list f b) as [C V].
  assert (H' : forallb tclean1 (map (tmap f) b) = true) by (rewrite C; exact H).
  destruct (nested_list_take b n H) as [-> ->]. destruct (nested_list_take _ n H') as [-> ->].
  rewrite V. cbn [rl_lres]. rewrite firstn_map, !map_map. split; reflexivity.
Qed.

(* satisfiable / computes: labels of future payloads, relabelled to other labels *)
Definition example_payloads : list gstep :=
  [NValue (VTuple [VInt (-1); VInt 1]); NValue (VTuple [VInt (-1); VInt 2]); NAwait (TVal (VInt 7));
   NValue (VTuple [VInt (-1); VInt 3]); NNest [NValue (VTuple [VInt (-1); VInt 4]); NAwait (TVal VNone)]].

Lemma example_payloads_ok :
  let b := example_payloads in
  let f := fun v => match v with VTuple [VInt (-1); VInt k] => VInt (2000 + k) | _ => v end in
  forallb tclean1 b = true /\
  snd (take_first (init (inline b)) 3) =
    LOk [TVal (VTuple [VInt (-1); VInt 1]); TVal (VTuple [VInt (-1); VInt 2]); TVal (VTuple [VInt (-1); VInt 3])] /\
  snd (list_of_generator (init (inline (map (tmap f) b)))) =
    LOk [TVal (VInt 2001); TVal (VInt 2002); TVal (VInt 2003); TVal (VInt 2004)].
Proof. vm_compute. repeat split; reflexivity. Qed.
