(* The theorems about TREE PROGRAMS WITH SYNCHRONOUS CALLS ([stree], proofs/MachineC01S.v) of C01 / C02 / C03 / C04 /
   C06 / C07 with the hypothesis [no_unwind P n (start h s1)] ("no exception unwinds through asynq's frames in
   the first n steps") replaced by the condition that can be checked on the run, "the MAX_TASK_STACK_SIZE guard
   has not fired so far",

       forall k, k < n -> guard_fires P (run P k (start h s1)) = false

   ([guard_fires]: the boolean test at the head of the _execute loop, MachineNoUnwind.v).  This is
   MachineGuardForms.v for the class [stree]: by MachineNoUnwind.stree_no_unwind_iff_guard_silent guard silence
   before step n gives [no_unwind P n] for a run started by a fresh task of an stree program on the empty
   scheduler state under a pointwise service (FutureIsAlreadyComputed is unreachable there, too).  Each
   [..._guard] theorem is the corollary of the theorem of the same name without the suffix, with the very same
   binders and conclusion; only the one hypothesis is exchanged, so every proof is the same tactic
   ([guard_form]: introduce up to the guard hypothesis, turn it into [no_unwind], put everything back, apply the
   original).  Not restated: the refutations ([..._is_false]) and the theorems on a state left behind by earlier
   computations ([..._after_history]; stree_no_unwind_iff_guard_silent speaks about the empty state st0 P).

   Off-by-one as in MachineGuardForms.v: [no_unwind P n c0] is about configurations 0 .. n, guard silence about
   0 .. n-1 (the guard firing at configuration k makes configuration k+1 unwind). *)
From Asynq Require Import Machine Seq proofs.ProgProofs proofs.MachineFrame proofs.MachineC05 proofs.MachineC08
     proofs.MachineC08U proofs.MachineC01 proofs.MachineDFS proofs.MachineC04 proofs.MachineC04B proofs.MachineC02
     proofs.MachineC07 proofs.MachineC06T proofs.MachineSteps proofs.MachineC01S proofs.MachineC02S
     proofs.MachineC04S proofs.MachineDFSS proofs.MachineC06S proofs.MachineC07S proofs.MachineNoUnwind.

(* the goal is the statement of L with [no_unwind P n c] exchanged for guard silence before n *)
Ltac guard_form L :=
  let rec go :=
    lazymatch goal with
    | |- (forall k, (k < ?n)%nat -> guard_fires ?P (run ?P k ?c) = false) -> _ =>
      let Hg := fresh "Hg" in
      intro Hg;
      match goal with
      | HP : pointwise P, Ht : stree ?p |- _ =>
        let H := fresh "Hnu" in
        pose proof (stree_no_unwind_iff_guard_silent P HP p Ht n Hg) as H; clear Hg;
        repeat match goal with X : _ |- _ => revert X end;
        exact L
      end
    | |- _ => intro; go
    end in
  go.

(* ------------------------------------------------------------------ C01 *)
Theorem async_eq_seq_stree_guard : forall P p n o,
  pointwise P -> stree p ->
  let h := fst (create [] (FTask p) (st0 P)) in
  let s1 := snd (create [] (FTask p) (st0 P)) in
  (forall k, (k < n)%nat -> guard_fires P (run P k (start h s1)) = false) ->
  c_mode (run P n (start h s1)) = MDone o -> o = evals p.
Proof. guard_form (async_eq_seq_stree). Qed.

(* ------------------------------------------------------------------ C02 *)
Theorem resume_guard_stree_guard : forall P, pointwise P -> forall p, stree p -> forall n t,
  let h := fst (create [] (FTask p) (st0 P)) in
  let s1 := snd (create [] (FTask p) (st0 P)) in
  (forall k, (k < n)%nat -> guard_fires P (run P k (start h s1)) = false) ->
  c_mode (run P n (start h s1)) = MResume t ->
  exists tk, get t (c_st (run P n (start h s1))) = Some (mkFut None (KTask tk)) /\
    forall x, In (RFut x) (leaves (tk_last tk)) -> computed x (c_st (run P n (start h s1))) = true.
Proof. guard_form (resume_guard_stree). Qed.

Theorem delivered_is_unwrap_stree_guard : forall P, pointwise P -> forall p, stree p -> forall n t,
  let h := fst (create [] (FTask p) (st0 P)) in
  let s1 := snd (create [] (FTask p) (st0 P)) in
  (forall j, (j < n)%nat -> guard_fires P (run P j (start h s1)) = false) ->
  c_mode (run P n (start h s1)) = MResume t ->
  exists tk k spec, get t (c_st (run P n (start h s1))) = Some (mkFut None (KTask tk)) /\
    tk_gen tk = Some k /\
    c_mode (step P (run P n (start h s1))) =
      MRun t (k (unwrap (look (c_st (run P n (start h s1)))) (tk_last tk))) /\
    unwrap (look (c_st (run P n (start h s1)))) (tk_last tk) = unwrap (look_spec spec) (tk_last tk) /\
    spec t = Some (evals (k (unwrap (look_spec spec) (tk_last tk)))).
Proof. guard_form (delivered_is_unwrap_stree). Qed.

Theorem uncaught_failure_stree_guard : forall P p n e,
  pointwise P -> stree p -> evals p = Err e ->
  let h := fst (create [] (FTask p) (st0 P)) in
  let s1 := snd (create [] (FTask p) (st0 P)) in
  (forall k, (k < n)%nat -> guard_fires P (run P k (start h s1)) = false) ->
  forall o, c_mode (run P n (start h s1)) = MDone o -> o = Err e.
Proof. guard_form (uncaught_failure_stree). Qed.

Theorem sync_call_stree_guard : forall P, pointwise P -> forall p, stree p -> forall n t h k,
  let h0 := fst (create [] (FTask p) (st0 P)) in
  let s1 := snd (create [] (FTask p) (st0 P)) in
  (forall j, (j < n)%nat -> guard_fires P (run P j (start h0 s1)) = false) ->
  c_mode (run P n (start h0 s1)) = MRun t (Sync h k) ->
  exists spec oh, spec h = Some oh /\ spec t = Some (evals (k oh)) /\ (forall o, stree (k o)) /\
    (fnum t < fnum h)%Z /\ is_task h (c_st (run P n (start h0 s1))) /\
    (forall q, get h (c_st (run P n (start h0 s1))) = Some (mkFut None (KTask (fresh_task q))) -> oh = evals q) /\
    (computed h (c_st (run P n (start h0 s1))) = true -> oh = outcome_of h (c_st (run P n (start h0 s1)))) /\
    c_mode (step P (run P n (start h0 s1))) = MValue h /\
    c_frames (step P (run P n (start h0 s1))) = FValue t k :: c_frames (run P n (start h0 s1)).
Proof. guard_form (sync_call_stree). Qed.

Theorem sync_deliver_origin_stree_guard : forall P, pointwise P -> forall p, stree p -> forall n o t k fr',
  let h0 := fst (create [] (FTask p) (st0 P)) in
  let s1 := snd (create [] (FTask p) (st0 P)) in
  (forall j, (j < n)%nat -> guard_fires P (run P j (start h0 s1)) = false) ->
  c_mode (step P (run P n (start h0 s1))) = MDeliver o ->
  c_frames (step P (run P n (start h0 s1))) = FValue t k :: fr' ->
  exists spec h, computed h (c_st (run P n (start h0 s1))) = true /\
    o = outcome_of h (c_st (run P n (start h0 s1))) /\ spec h = Some o /\ (fnum t < fnum h)%Z /\
    ((c_mode (run P n (start h0 s1)) = MValue h /\ c_frames (run P n (start h0 s1)) = FValue t k :: fr') \/
     ((c_mode (run P n (start h0 s1)) = MWaitHead \/ c_mode (run P n (start h0 s1)) = MAfterExec) /\
      c_frames (run P n (start h0 s1)) = FWait h :: FValue t k :: fr')).
Proof. guard_form (sync_deliver_origin_stree). Qed.

Theorem sync_return_stree_guard : forall P, pointwise P -> forall p, stree p -> forall n o t k fr',
  let h0 := fst (create [] (FTask p) (st0 P)) in
  let s1 := snd (create [] (FTask p) (st0 P)) in
  (forall j, (j < n)%nat -> guard_fires P (run P j (start h0 s1)) = false) ->
  c_mode (run P n (start h0 s1)) = MDeliver o -> c_frames (run P n (start h0 s1)) = FValue t k :: fr' ->
  exists spec, utask (c_st (run P n (start h0 s1))) t /\ (forall x, stree (k x)) /\
    spec t = Some (evals (k o)) /\
    c_mode (step P (run P n (start h0 s1))) = MRun t (k o) /\
    c_frames (step P (run P n (start h0 s1))) = fr'.
Proof. guard_form (sync_return_stree). Qed.

Theorem sync_call_returns_evals_stree_guard : forall P, pointwise P -> forall p, stree p ->
  forall n m t h k q o,
  let c0 := start (fst (create [] (FTask p) (st0 P))) (snd (create [] (FTask p) (st0 P))) in
  (forall j, (j < m)%nat -> guard_fires P (run P j c0) = false) -> (n < m)%nat ->
  c_mode (run P n c0) = MRun t (Sync h k) ->
  get h (c_st (run P n c0)) = Some (mkFut None (KTask (fresh_task q))) ->
  c_mode (run P m c0) = MDeliver o -> c_frames (run P m c0) = FValue t k :: c_frames (run P n c0) ->
  (forall i, (n < i < m)%nat ->
     ~ (c_frames (run P i c0) = FValue t k :: c_frames (run P n c0) /\ exists o', c_mode (run P i c0) = MDeliver o')) ->
  o = evals q /\
  exists spec, spec t = Some (evals (k (evals q))) /\ c_mode (step P (run P m c0)) = MRun t (k (evals q)).
Proof. guard_form (sync_call_returns_evals_stree). Qed.

Theorem sync_call_expr_returns_evals_stree_guard : forall P, pointwise P -> forall p, stree p ->
  forall n m t k q o,
  let c0 := start (fst (create [] (FTask p) (st0 P))) (snd (create [] (FTask p) (st0 P))) in
  (forall j, (j < m)%nat -> guard_fires P (run P j c0) = false) -> (n + 1 < m)%nat ->
  c_mode (run P n c0) = MRun t (Let (FTask q) (fun h => Sync h k)) ->
  c_mode (run P m c0) = MDeliver o -> c_frames (run P m c0) = FValue t k :: c_frames (run P n c0) ->
  (forall i, (n + 1 < i < m)%nat ->
     ~ (c_frames (run P i c0) = FValue t k :: c_frames (run P n c0) /\ exists o', c_mode (run P i c0) = MDeliver o')) ->
  o = evals q /\
  exists spec, spec t = Some (evals (k (evals q))) /\ c_mode (step P (run P m c0)) = MRun t (k (evals q)).
Proof. guard_form (sync_call_expr_returns_evals_stree). Qed.

(* ------------------------------------------------------------------ C07 *)
Theorem contexts_nest_lifo_stree_guard : forall P, pointwise P -> forall p, stree p -> wns [] p -> forall n,
  let h := fst (create [] (FTask p) (st0 P)) in
  let s1 := snd (create [] (FTask p) (st0 P)) in
  (forall k, (k < n)%nat -> guard_fires P (run P k (start h s1)) = false) ->
  exists l, layers (c_st (run P (S n) (start h s1))) = layers (c_st (run P n (start h s1))) ++ l \/
            layers (c_st (run P n (start h s1))) = layers (c_st (run P (S n) (start h s1))) ++ l.
Proof. guard_form (contexts_nest_lifo_stree). Qed.

Theorem reads_see_enclosing_overrides_stree_guard : forall P, pointwise P -> forall p, stree p -> wns [] p -> forall n t q,
  let h := fst (create [] (FTask p) (st0 P)) in
  let s1 := snd (create [] (FTask p) (st0 P)) in
  (forall j, (j < n)%nat -> guard_fires P (run P j (start h s1)) = false) -> c_mode (run P n (start h s1)) = MRun t q ->
  let c := run P n (start h s1) in
  let s := c_st c in
  (forall x, var_get x s = apply_l (fun x => var_get x s1) (layers s) x) /\
  exists tk rest, get t s = Some (mkFut None (KTask tk)) /\ tk_cact tk = true /\
    (wns (tk_ctxs tk) q \/ exists h' k, q = Sync h' k /\ forall o, wns (tk_ctxs tk) (k o)) /\
    tasks s = t :: rest /\ ~ In t rest /\ layers s = lower s rest ++ map (pair t) (tk_ctxs tk) /\
    (forall u cx, In (u, cx) (lower s rest) ->
       In u rest /\ exists tku, get u s = Some (mkFut None (KTask tku)) /\ tk_cact tku = true /\ In cx (tk_ctxs tku) /\
                                (In u (fvals (c_frames c)) \/ tk_ds tku = true)) /\
    (forall x, In x (fvals (c_frames c)) ->
       In x rest /\ exists tkx, get x s = Some (mkFut None (KTask tkx)) /\ tk_cact tkx = true /\
                                forall cx, In cx (tk_ctxs tkx) -> In (x, cx) (lower s rest)).
Proof. guard_form (reads_see_enclosing_overrides_stree). Qed.

Theorem reads_innermost_stree_guard : forall P, pointwise P -> forall p, stree p -> wns [] p -> forall n t q x,
  let h := fst (create [] (FTask p) (st0 P)) in
  let s1 := snd (create [] (FTask p) (st0 P)) in
  (forall k, (k < n)%nat -> guard_fires P (run P k (start h s1)) = false) -> c_mode (run P n (start h s1)) = MRun t q ->
  let s := c_st (run P n (start h s1)) in
  (forall pre u cid v post, layers s = pre ++ (u, COverride cid x v) :: post ->
     (forall l, In l post -> ovar (snd l) <> Some x) -> var_get x s = v) /\
  ((forall l, In l (layers s) -> ovar (snd l) <> Some x) -> var_get x s = var_get x s1).
Proof. guard_form (reads_innermost_stree). Qed.

Theorem values_restored_stree_guard : forall P, pointwise P -> forall p, stree p -> wns [] p -> forall n,
  let h := fst (create [] (FTask p) (st0 P)) in
  let s1 := snd (create [] (FTask p) (st0 P)) in
  (forall k, (k < n)%nat -> guard_fires P (run P k (start h s1)) = false) ->
  ((exists o, c_mode (run P n (start h s1)) = MDone o) \/
   (c_mode (run P n (start h s1)) = MAfterExec /\ fvals (c_frames (run P n (start h s1))) = [])) ->
  forall x, var_get x (c_st (run P n (start h s1))) = var_get x s1.
Proof. guard_form (values_restored_stree). Qed.

Theorem values_at_flush_stree_guard : forall P, pointwise P -> forall p, stree p -> wns [] p -> forall n,
  let h := fst (create [] (FTask p) (st0 P)) in
  let s1 := snd (create [] (FTask p) (st0 P)) in
  (forall k, (k < n)%nat -> guard_fires P (run P k (start h s1)) = false) ->
  c_mode (run P n (start h s1)) = MAfterExec ->
  let c := run P n (start h s1) in
  let s := c_st c in
  (forall x, var_get x s = apply_l (fun x => var_get x s1) (layers s) x) /\
  (forall u cx, In (u, cx) (layers s) <->
     exists tk, get u s = Some (mkFut None (KTask tk)) /\ tk_cact tk = true /\ In cx (tk_ctxs tk)) /\
  (forall u tk, get u s = Some (mkFut None (KTask tk)) -> tk_cact tk = true ->
     In u (tasks s) /\ (In u (fvals (c_frames c)) \/ tk_ds tk = true)) /\
  (forall u, In u (fvals (c_frames c)) -> exists tk, get u s = Some (mkFut None (KTask tk)) /\ tk_cact tk = true).
Proof. guard_form (values_at_flush_stree). Qed.

Theorem layers_are_the_active_contexts_stree_guard : forall P, pointwise P -> forall p, stree p -> wns [] p -> forall n u c,
  let h := fst (create [] (FTask p) (st0 P)) in
  let s1 := snd (create [] (FTask p) (st0 P)) in
  (forall k, (k < n)%nat -> guard_fires P (run P k (start h s1)) = false) ->
  is_final (c_mode (run P n (start h s1))) = false ->
  let s := c_st (run P n (start h s1)) in
  In (u, c) (layers s) <->
  exists tk, get u s = Some (mkFut None (KTask tk)) /\ tk_cact tk = true /\ In c (tk_ctxs tk).
Proof. guard_form (layers_are_the_active_contexts_stree). Qed.

Theorem layer_owners_await_stree_guard : forall P, pointwise P -> forall p, stree p -> forall n t q,
  let h := fst (create [] (FTask p) (st0 P)) in
  let s1 := snd (create [] (FTask p) (st0 P)) in
  (forall k, (k < n)%nat -> guard_fires P (run P k (start h s1)) = false) -> c_mode (run P n (start h s1)) = MRun t q ->
  let c := run P n (start h s1) in
  let s := c_st c in
  forall rest, tasks s = t :: rest -> forall u cx, In (u, cx) (lower s rest) -> awaits s (c_frames c) u t.
Proof. guard_form (layer_owners_await_stree). Qed.

Theorem saved_values_stree_guard : forall P, pointwise P -> forall p, stree p -> wns [] p -> forall n,
  let h := fst (create [] (FTask p) (st0 P)) in
  let s1 := snd (create [] (FTask p) (st0 P)) in
  (forall k, (k < n)%nat -> guard_fires P (run P k (start h s1)) = false) ->
  match c_mode (run P n (start h s1)) with
  | MUnwind _ | MStuck => True
  | _ =>
    let s := c_st (run P n (start h s1)) in
    let init := fun x => var_get x s1 in
    (forall x, var_get x s = apply_l init (layers s) x) /\
    (forall pre t cid var v post, layers s = pre ++ (t, COverride cid var v) :: post ->
       ci_old (ci_get (t, cid) s) = apply_l init pre var) /\
    NoDup (map lkey (layers s))
  end.
Proof. guard_form (saved_values_stree). Qed.

(* ------------------------------------------------------------------ C06 *)
Theorem flush_stree_guard : forall P, pointwise P -> forall p, stree p -> forall n,
  let h := fst (create [] (FTask p) (st0 P)) in
  let s1 := snd (create [] (FTask p) (st0 P)) in
  (forall k, (k < n)%nat -> guard_fires P (run P k (start h s1)) = false) ->
  c_mode (run P n (start h s1)) = MAfterExec ->
  let c := run P n (start h s1) in
  exists r vs, c_frames c = FWait r :: vs /\ stk (tasks (c_st c)) vs /\
    (forall t, In t (fvals vs) -> exists tk, get t (c_st c) = Some (mkFut None (KTask tk)) /\ tk_cact tk = true) /\
    (forall u tk, get u (c_st c) = Some (mkFut None (KTask tk)) -> tk_cact tk = true \/ tk_ds tk = true ->
       In u (tasks (c_st c)) /\ tk_cact tk = true /\ (In u (fvals vs) \/ tk_ds tk = true)).
Proof. guard_form (flush_stree). Qed.

Theorem nested_flush_stree_guard : forall P, pointwise P -> forall p, stree p -> forall n r t k fr',
  let h := fst (create [] (FTask p) (st0 P)) in
  let s1 := snd (create [] (FTask p) (st0 P)) in
  (forall j, (j < n)%nat -> guard_fires P (run P j (start h s1)) = false) ->
  c_mode (run P n (start h s1)) = MAfterExec ->
  c_frames (run P n (start h s1)) = FWait r :: FValue t k :: fr' ->
  let s := c_st (run P n (start h s1)) in
  exists old i r' vs rest below,
    fr' = FCont t old :: FExec i :: FWait r' :: vs /\ tasks s = t :: rest ++ below /\ length below = i /\
    stk below vs /\
    (exists tk, get t s = Some (mkFut None (KTask tk)) /\ tk_cact tk = true) /\
    (forall u tk, get u s = Some (mkFut None (KTask tk)) -> tk_cact tk = true \/ tk_ds tk = true ->
       (u = t \/ In u (rest ++ below)) /\ tk_cact tk = true /\ (u = t \/ In u (fvals vs) \/ tk_ds tk = true)).
Proof. guard_form (nested_flush_stree). Qed.

Theorem outer_flush_stree_guard : forall P, pointwise P -> forall p, stree p -> forall n,
  let h := fst (create [] (FTask p) (st0 P)) in
  let s1 := snd (create [] (FTask p) (st0 P)) in
  (forall k, (k < n)%nat -> guard_fires P (run P k (start h s1)) = false) ->
  c_mode (run P n (start h s1)) = MAfterExec ->
  fvals (c_frames (run P n (start h s1))) = [] ->
  tasks (c_st (run P n (start h s1))) = [] /\
  forall u tk, get u (c_st (run P n (start h s1))) = Some (mkFut None (KTask tk)) ->
    tk_cact tk = false /\ tk_ds tk = false.
Proof. guard_form (outer_flush_stree). Qed.

Theorem running_stree_guard : forall P, pointwise P -> forall p, stree p -> forall n t q,
  let h := fst (create [] (FTask p) (st0 P)) in
  let s1 := snd (create [] (FTask p) (st0 P)) in
  (forall k, (k < n)%nat -> guard_fires P (run P k (start h s1)) = false) -> c_mode (run P n (start h s1)) = MRun t q ->
  let c := run P n (start h s1) in
  (exists rest, tasks (c_st c) = t :: rest) /\
  (forall x, x = t \/ In x (fvals (c_frames c)) ->
     exists tk, get x (c_st c) = Some (mkFut None (KTask tk)) /\ tk_cact tk = true) /\
  (forall u tk, get u (c_st c) = Some (mkFut None (KTask tk)) -> tk_cact tk = true ->
     In u (tasks (c_st c)) /\ (u = t \/ In u (fvals (c_frames c)) \/ tk_ds tk = true)).
Proof. guard_form (running_stree). Qed.

Theorem callers_stay_resumed_guard : forall P, pointwise P -> forall p, stree p -> forall n t,
  let h := fst (create [] (FTask p) (st0 P)) in
  let s1 := snd (create [] (FTask p) (st0 P)) in
  (forall k, (k < n)%nat -> guard_fires P (run P k (start h s1)) = false) ->
  is_final (c_mode (run P n (start h s1))) = false ->
  In t (fvals (c_frames (run P n (start h s1)))) ->
  exists tk, get t (c_st (run P n (start h s1))) = Some (mkFut None (KTask tk)) /\ tk_cact tk = true.
Proof. guard_form (callers_stay_resumed). Qed.

Theorem contexts_untouched_inside_value_guard : forall P p n m t, pointwise P -> stree p ->
  let h := fst (create [] (FTask p) (st0 P)) in
  let s1 := snd (create [] (FTask p) (st0 P)) in
  (forall j, (j < n + m)%nat -> guard_fires P (run P j (start h s1)) = false) ->
  (forall k, (n <= k < n + m)%nat -> In t (fvals (c_frames (run P k (start h s1))))) ->
  cevt t (c_st (run P (n + m) (start h s1))) = cevt t (c_st (run P n (start h s1))).
Proof. guard_form (contexts_untouched_inside_value). Qed.

Theorem end_stree_guard : forall P, pointwise P -> forall p, stree p -> forall n o,
  let h := fst (create [] (FTask p) (st0 P)) in
  let s1 := snd (create [] (FTask p) (st0 P)) in
  (forall k, (k < n)%nat -> guard_fires P (run P k (start h s1)) = false) -> c_mode (run P n (start h s1)) = MDone o ->
  tasks (c_st (run P n (start h s1))) = [] /\
  forall u tk, get u (c_st (run P n (start h s1))) = Some (mkFut None (KTask tk)) ->
    tk_cact tk = false /\ tk_ds tk = false.
Proof. guard_form (end_stree). Qed.

Theorem resume_pause_alternate_stree_guard : forall P, pointwise P -> forall p, stree p -> wns [] p -> forall n t cid,
  let h := fst (create [] (FTask p) (st0 P)) in
  let s1 := snd (create [] (FTask p) (st0 P)) in
  (forall k, (k < n)%nat -> guard_fires P (run P k (start h s1)) = false) ->
  alternates t cid true (ctx_events t cid (trace (c_st (run P n (start h s1))))).
Proof. guard_form (resume_pause_alternate_stree). Qed.

Theorem run_case_resume_pause_alternate_stree_guard : forall P p n t cid,
  pointwise P -> stree p -> wns [] p ->
  (forall k, (k < n)%nat -> guard_fires P (run P k
     (start (fst (create [] (FTask p) (st0 P))) (snd (create [] (FTask p) (st0 P))))) = false) ->
  alternates t cid true (filter (evk t cid) (snd (run_case P n [p]))).
Proof. guard_form (run_case_resume_pause_alternate_stree). Qed.

Theorem newest_is_resume_iff_active_stree_guard : forall P, pointwise P -> forall p, stree p -> wns [] p -> forall n t cid,
  let h := fst (create [] (FTask p) (st0 P)) in
  let s1 := snd (create [] (FTask p) (st0 P)) in
  (forall k, (k < n)%nat -> guard_fires P (run P k (start h s1)) = false) ->
  let s := c_st (run P n (start h s1)) in
  (exists rest, filter (evk t cid) (trace s) = EvResume t cid :: rest) <->
  (exists tk f, get t s = Some (mkFut None (KTask tk)) /\ tk_cact tk = true /\ In (CAsync cid f) (tk_ctxs tk)).
Proof. guard_form (newest_is_resume_iff_active_stree). Qed.

Theorem all_paused_at_end_stree_events_guard : forall P, pointwise P -> forall p, stree p -> wns [] p -> forall n t cid o,
  let h := fst (create [] (FTask p) (st0 P)) in
  let s1 := snd (create [] (FTask p) (st0 P)) in
  (forall k, (k < n)%nat -> guard_fires P (run P k (start h s1)) = false) -> c_mode (run P n (start h s1)) = MDone o ->
  match filter (evk t cid) (trace (c_st (run P n (start h s1)))) with [] => True | e :: _ => e = EvPause t cid end.
Proof. guard_form (all_paused_at_end_stree_events). Qed.

Theorem resumed_at_flush_stree_guard : forall P, pointwise P -> forall p, stree p -> wns [] p -> forall n t cid,
  let h := fst (create [] (FTask p) (st0 P)) in
  let s1 := snd (create [] (FTask p) (st0 P)) in
  (forall k, (k < n)%nat -> guard_fires P (run P k (start h s1)) = false) ->
  c_mode (run P n (start h s1)) = MAfterExec ->
  let c := run P n (start h s1) in
  (exists rest, filter (evk t cid) (trace (c_st c)) = EvResume t cid :: rest) ->
  In t (tasks (c_st c)) /\
  exists tk, get t (c_st c) = Some (mkFut None (KTask tk)) /\ (In t (fvals (c_frames c)) \/ tk_ds tk = true).
Proof. guard_form (resumed_at_flush_stree). Qed.

Theorem all_paused_at_outer_flush_stree_guard : forall P, pointwise P -> forall p, stree p -> wns [] p -> forall n t cid,
  let h := fst (create [] (FTask p) (st0 P)) in
  let s1 := snd (create [] (FTask p) (st0 P)) in
  (forall k, (k < n)%nat -> guard_fires P (run P k (start h s1)) = false) ->
  c_mode (run P n (start h s1)) = MAfterExec ->
  fvals (c_frames (run P n (start h s1))) = [] ->
  match filter (evk t cid) (trace (c_st (run P n (start h s1)))) with [] => True | e :: _ => e = EvPause t cid end.
Proof. guard_form (all_paused_at_outer_flush_stree). Qed.

Theorem resumed_while_code_runs_stree_guard : forall P, pointwise P -> forall p, stree p -> wns [] p -> forall n t q x,
  let h := fst (create [] (FTask p) (st0 P)) in
  let s1 := snd (create [] (FTask p) (st0 P)) in
  (forall k, (k < n)%nat -> guard_fires P (run P k (start h s1)) = false) -> c_mode (run P n (start h s1)) = MRun t q ->
  let c := run P n (start h s1) in
  x = t \/ In x (fvals (c_frames c)) ->
  forall tk, get x (c_st c) = Some (mkFut None (KTask tk)) -> forall cid f, In (CAsync cid f) (tk_ctxs tk) ->
    exists rest, filter (evk x cid) (trace (c_st c)) = EvResume x cid :: rest.
Proof. guard_form (resumed_while_code_runs_stree). Qed.

Theorem caller_contexts_resumed_stree_guard : forall P, pointwise P -> forall p, stree p -> wns [] p -> forall n x,
  let h := fst (create [] (FTask p) (st0 P)) in
  let s1 := snd (create [] (FTask p) (st0 P)) in
  (forall k, (k < n)%nat -> guard_fires P (run P k (start h s1)) = false) ->
  is_final (c_mode (run P n (start h s1))) = false ->
  let c := run P n (start h s1) in
  In x (fvals (c_frames c)) ->
  exists tk, get x (c_st c) = Some (mkFut None (KTask tk)) /\
    forall cid f, In (CAsync cid f) (tk_ctxs tk) -> exists rest, filter (evk x cid) (trace (c_st c)) = EvResume x cid :: rest.
Proof. guard_form (caller_contexts_resumed_stree). Qed.

Theorem resumed_only_on_stack_stree_guard : forall P, pointwise P -> forall p, stree p -> wns [] p -> forall n t q u cid,
  let h := fst (create [] (FTask p) (st0 P)) in
  let s1 := snd (create [] (FTask p) (st0 P)) in
  (forall k, (k < n)%nat -> guard_fires P (run P k (start h s1)) = false) -> c_mode (run P n (start h s1)) = MRun t q ->
  let c := run P n (start h s1) in
  (exists rest, filter (evk u cid) (trace (c_st c)) = EvResume u cid :: rest) ->
  In u (tasks (c_st c)) /\
  (u = t \/ In u (fvals (c_frames c)) \/ exists tk, get u (c_st c) = Some (mkFut None (KTask tk)) /\ tk_ds tk = true).
Proof. guard_form (resumed_only_on_stack_stree). Qed.

Theorem resume_pause_alternate_stree_wn_guard : forall P p n t cid,
  pointwise P -> stree p -> wn [] p ->
  (forall k, (k < n)%nat -> guard_fires P (run P k
     (start (fst (create [] (FTask p) (st0 P))) (snd (create [] (FTask p) (st0 P))))) = false) ->
  alternates t cid true (ctx_events t cid (trace (c_st (run P n (start (fst (create [] (FTask p) (st0 P))) (snd (create [] (FTask p) (st0 P)))))))).
Proof. guard_form (resume_pause_alternate_stree_wn). Qed.

(* ------------------------------------------------------------------ C04 *)
Theorem flush_point_shape_stree_guard : forall P, pointwise P -> forall p, stree p -> forall n,
  let h := fst (create [] (FTask p) (st0 P)) in
  let s1 := snd (create [] (FTask p) (st0 P)) in
  (forall k, (k < n)%nat -> guard_fires P (run P k (start h s1)) = false) ->
  c_mode (run P n (start h s1)) = MAfterExec ->
  exists r vs, c_frames (run P n (start h s1)) = FWait r :: vs.
Proof. guard_form (flush_point_shape_stree). Qed.

Theorem flush_only_when_settled_stree_guard : forall P, pointwise P -> forall p, stree p -> forall n r vs,
  let h := fst (create [] (FTask p) (st0 P)) in
  let s1 := snd (create [] (FTask p) (st0 P)) in
  (forall k, (k < n)%nat -> guard_fires P (run P k (start h s1)) = false) ->
  c_mode (run P n (start h s1)) = MAfterExec ->
  c_frames (run P n (start h s1)) = FWait r :: vs -> computed r (c_st (run P n (start h s1))) = false ->
  let s := c_st (run P n (start h s1)) in
  exists S : fid -> Prop, S r /\
    (forall d, S d ->
       (exists tk, get d s = Some (mkFut None (KTask tk)) /\ (1 <= tk_iter tk)%Z /\
                   (exists e, In e (tk_deps tk) /\ S e) /\
                   (forall e, In e (tk_deps tk) -> computed e s = true \/ S e)) \/
       (exists o kind idx key a, get d s = Some (mkFut o (KItem kind idx key a)))) /\
    (forall d, S d -> ~ In d (tasks s)) /\
    ((forall d o kind idx key a, S d -> get d s = Some (mkFut o (KItem kind idx key a)) -> o = None) ->
     forall d, S d ->
       (exists tk, get d s = Some (mkFut None (KTask tk)) /\ (1 <= tk_iter tk)%Z /\
                   (exists e, In e (tk_deps tk) /\ S e) /\
                   (forall e, In e (tk_deps tk) -> computed e s = true \/ S e)) \/
       (exists kind idx key a, get d s = Some (mkFut None (KItem kind idx key a)))).
Proof. guard_form (flush_only_when_settled_stree). Qed.

Theorem flush_only_when_stuck_stree_if_no_stale_item_guard : forall P, pointwise P -> forall p, stree p -> forall n r vs,
  let h := fst (create [] (FTask p) (st0 P)) in
  let s1 := snd (create [] (FTask p) (st0 P)) in
  (forall k, (k < n)%nat -> guard_fires P (run P k (start h s1)) = false) ->
  c_mode (run P n (start h s1)) = MAfterExec ->
  c_frames (run P n (start h s1)) = FWait r :: vs -> computed r (c_st (run P n (start h s1))) = false ->
  (forall e o kind idx key a, get e (c_st (run P n (start h s1))) = Some (mkFut (Some o) (KItem kind idx key a)) ->
     forall d tk, get d (c_st (run P n (start h s1))) = Some (mkFut None (KTask tk)) -> ~ In e (tk_deps tk)) ->
  exists S : fid -> Prop, S r /\ (forall d, S d -> S_ok S (c_st (run P n (start h s1))) d) /\
    (forall d, S d -> ~ In d (tasks (c_st (run P n (start h s1))))).
Proof. guard_form (flush_only_when_stuck_stree_if_no_stale_item). Qed.

Theorem reachable_is_computed_or_settled_stree_guard : forall P, pointwise P -> forall p, stree p -> forall n r vs,
  let h := fst (create [] (FTask p) (st0 P)) in
  let s1 := snd (create [] (FTask p) (st0 P)) in
  (forall k, (k < n)%nat -> guard_fires P (run P k (start h s1)) = false) ->
  c_mode (run P n (start h s1)) = MAfterExec ->
  c_frames (run P n (start h s1)) = FWait r :: vs -> computed r (c_st (run P n (start h s1))) = false ->
  forall d, reach (c_st (run P n (start h s1))) r d ->
    computed d (c_st (run P n (start h s1))) = true \/
    (exists kind idx key a, get d (c_st (run P n (start h s1))) = Some (mkFut None (KItem kind idx key a))) \/
    (exists tk, get d (c_st (run P n (start h s1))) = Some (mkFut None (KTask tk)) /\ (1 <= tk_iter tk)%Z /\
                ~ In d (tasks (c_st (run P n (start h s1)))) /\
                (is_blocked tk (c_st (run P n (start h s1))) = true \/
                 exists e o kind idx key a, In e (tk_deps tk) /\
                   get e (c_st (run P n (start h s1))) = Some (mkFut (Some o) (KItem kind idx key a)))).
Proof. guard_form (reachable_is_computed_or_settled_stree). Qed.

Theorem reachable_is_computed_or_stuck_stree_if_no_stale_item_guard : forall P, pointwise P -> forall p, stree p -> forall n r vs,
  let h := fst (create [] (FTask p) (st0 P)) in
  let s1 := snd (create [] (FTask p) (st0 P)) in
  (forall k, (k < n)%nat -> guard_fires P (run P k (start h s1)) = false) ->
  c_mode (run P n (start h s1)) = MAfterExec ->
  c_frames (run P n (start h s1)) = FWait r :: vs -> computed r (c_st (run P n (start h s1))) = false ->
  (forall e o kind idx key a, get e (c_st (run P n (start h s1))) = Some (mkFut (Some o) (KItem kind idx key a)) ->
     forall d tk, get d (c_st (run P n (start h s1))) = Some (mkFut None (KTask tk)) -> ~ In e (tk_deps tk)) ->
  forall d, reach (c_st (run P n (start h s1))) r d ->
    computed d (c_st (run P n (start h s1))) = true \/
    (exists kind idx key a, get d (c_st (run P n (start h s1))) = Some (mkFut None (KItem kind idx key a))) \/
    (exists tk, get d (c_st (run P n (start h s1))) = Some (mkFut None (KTask tk)) /\ (1 <= tk_iter tk)%Z /\
                is_blocked tk (c_st (run P n (start h s1))) = true).
Proof. guard_form (reachable_is_computed_or_stuck_stree_if_no_stale_item). Qed.

(* ------------------------------------------------------------------ C03 *)
Theorem stree_resume_guarded_guard : forall P p n,
  pointwise P -> stree p ->
  (forall k, (k < n)%nat -> guard_fires P (run P k
     (start (fst (create [] (FTask p) (st0 P))) (snd (create [] (FTask p) (st0 P))))) = false) ->
  resume_guarded P n (start (fst (create [] (FTask p) (st0 P))) (snd (create [] (FTask p) (st0 P)))).
Proof. guard_form (stree_resume_guarded). Qed.

Theorem stree_no_step_after_done_guard : forall P p n,
  pointwise P -> stree p ->
  (forall k, (k < n)%nat -> guard_fires P (run P k
     (start (fst (create [] (FTask p) (st0 P))) (snd (create [] (FTask p) (st0 P))))) = false) ->
  forall t i o l1 l2, snd (run_case P n [p]) = l1 ++ EvStep t i o :: l2 -> forall o', ~ In (EvDone t o') l1.
Proof. guard_form (stree_no_step_after_done). Qed.
